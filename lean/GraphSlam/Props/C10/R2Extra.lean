import GraphSlam.Real.Reflect
import GraphSlam.Real.Wrap
import GraphSlam.Generated.PoseR2

/-!
# C10 for `PoseR2` — every public Jacobian method is the exact Fréchet derivative

Statements are hand-written and fixed; the definitions they mention (`PoseR2.add`, `PoseR2.jacobian_…`) are
regenerated from `/repo/graphslam/pose/r2.py` on every run, so a change to a formula changes the term these theorems
are about.  All operands range over *all* real vectors (no unit-norm / range hypothesis) except where a
hypothesis is displayed.
-/

namespace GraphSlam.Props.C10
open GraphSlam GraphSlam.Gen GraphSlam.Expr
set_option linter.unusedSimpArgs false
set_option linter.unusedVariables false
set_option linter.unnecessarySeqFocus false
set_option maxHeartbeats 4000000

theorem PoseR2_add_wrt_self_compact (p q : Fin 2 → ℝ) :
    HasFDerivAt (fun s => PoseR2.to_compact (PoseR2.add s q)) (toCLM (PoseR2.jacobian_self_oplus_other_wrt_self_compact p q)) p := by
  refine hasFDerivAt_of_reflect q p _ (PoseR2.to_compact (PoseR2.add (E := Expr 2 2) (vars 2 2) (pars 2 2))) _ ?_ ?_ ?_
  · reflect_rfl
  · intro i; fin_cases i <;> simp [PoseR2.add, PoseR2.to_compact, PoseR2.jacobian_self_oplus_other_wrt_self_compact, Smooth, vars, pars]
  · jac_entries [PoseR2.add, PoseR2.to_compact, PoseR2.jacobian_self_oplus_other_wrt_self_compact]

theorem PoseR2_add_wrt_other (p q : Fin 2 → ℝ) :
    HasFDerivAt (fun o => PoseR2.add p o) (toCLM (PoseR2.jacobian_self_oplus_other_wrt_other p q)) q := by
  refine hasFDerivAt_of_reflect p q _ (PoseR2.add (E := Expr 2 2) (pars 2 2) (vars 2 2)) _ ?_ ?_ ?_
  · reflect_rfl
  · intro i; fin_cases i <;> simp [PoseR2.add, PoseR2.jacobian_self_oplus_other_wrt_other, Smooth, vars, pars]
  · jac_entries [PoseR2.add, PoseR2.jacobian_self_oplus_other_wrt_other]

theorem PoseR2_add_wrt_other_compact (p q : Fin 2 → ℝ) :
    HasFDerivAt (fun o => PoseR2.to_compact (PoseR2.add p o)) (toCLM (PoseR2.jacobian_self_oplus_other_wrt_other_compact p q)) q := by
  refine hasFDerivAt_of_reflect p q _ (PoseR2.to_compact (PoseR2.add (E := Expr 2 2) (pars 2 2) (vars 2 2))) _ ?_ ?_ ?_
  · reflect_rfl
  · intro i; fin_cases i <;> simp [PoseR2.add, PoseR2.to_compact, PoseR2.jacobian_self_oplus_other_wrt_other_compact, Smooth, vars, pars]
  · jac_entries [PoseR2.add, PoseR2.to_compact, PoseR2.jacobian_self_oplus_other_wrt_other_compact]

/-- the `_compact` variant is the first 2 rows of the full Jacobian -/
theorem PoseR2_add_wrt_self_compact_rows (p q : Fin 2 → ℝ) (i : Fin 2) (j : Fin 2) :
    PoseR2.jacobian_self_oplus_other_wrt_self_compact p q i j = PoseR2.jacobian_self_oplus_other_wrt_self p q (Fin.castLE (by omega) i) j := by
  fin_cases i <;> fin_cases j <;> rfl

/-- the `_compact` variant is the first 2 rows of the full Jacobian -/
theorem PoseR2_add_wrt_other_compact_rows (p q : Fin 2 → ℝ) (i : Fin 2) (j : Fin 2) :
    PoseR2.jacobian_self_oplus_other_wrt_other_compact p q i j = PoseR2.jacobian_self_oplus_other_wrt_other p q (Fin.castLE (by omega) i) j := by
  fin_cases i <;> fin_cases j <;> rfl

theorem PoseR2_sub_wrt_self_compact (p q : Fin 2 → ℝ) :
    HasFDerivAt (fun s => PoseR2.to_compact (PoseR2.sub s q)) (toCLM (PoseR2.jacobian_self_ominus_other_wrt_self_compact p q)) p := by
  refine hasFDerivAt_of_reflect q p _ (PoseR2.to_compact (PoseR2.sub (E := Expr 2 2) (vars 2 2) (pars 2 2))) _ ?_ ?_ ?_
  · reflect_rfl
  · intro i; fin_cases i <;> simp [PoseR2.sub, PoseR2.to_compact, PoseR2.jacobian_self_ominus_other_wrt_self_compact, Smooth, vars, pars]
  · jac_entries [PoseR2.sub, PoseR2.to_compact, PoseR2.jacobian_self_ominus_other_wrt_self_compact]

/-- the `_compact` variant is the first 2 rows of the full Jacobian -/
theorem PoseR2_sub_wrt_self_compact_rows (p q : Fin 2 → ℝ) (i : Fin 2) (j : Fin 2) :
    PoseR2.jacobian_self_ominus_other_wrt_self_compact p q i j = PoseR2.jacobian_self_ominus_other_wrt_self p q (Fin.castLE (by omega) i) j := by
  fin_cases i <;> fin_cases j <;> rfl

/-- the `_compact` variant is the first 2 rows of the full Jacobian -/
theorem PoseR2_sub_wrt_other_compact_rows (p q : Fin 2 → ℝ) (i : Fin 2) (j : Fin 2) :
    PoseR2.jacobian_self_ominus_other_wrt_other_compact p q i j = PoseR2.jacobian_self_ominus_other_wrt_other p q (Fin.castLE (by omega) i) j := by
  fin_cases i <;> fin_cases j <;> rfl

end GraphSlam.Props.C10
