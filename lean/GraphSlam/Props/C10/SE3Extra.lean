import GraphSlam.Real.Reflect
import GraphSlam.Real.Wrap
import GraphSlam.Generated.PoseSE3

/-!
# C10 for `PoseSE3` — every public Jacobian method is the exact Fréchet derivative

Statements are hand-written and fixed; the definitions they mention (`PoseSE3.add`, `PoseSE3.jacobian_…`) are
regenerated from `/repo/graphslam/pose/se3.py` on every run, so a change to a formula changes the term these theorems
are about.  All operands range over *all* real vectors (no unit-norm / range hypothesis) except where a
hypothesis is displayed.
-/

namespace GraphSlam.Props.C10
open GraphSlam GraphSlam.Gen GraphSlam.Expr
set_option linter.unusedSimpArgs false
set_option linter.unusedVariables false
set_option linter.unnecessarySeqFocus false
set_option maxHeartbeats 4000000

theorem PoseSE3_add_wrt_self_compact (p q : Fin 7 → ℝ) :
    HasFDerivAt (fun s => PoseSE3.to_compact (PoseSE3.add s q)) (toCLM (PoseSE3.jacobian_self_oplus_other_wrt_self_compact p q)) p := by
  refine hasFDerivAt_of_reflect q p _ (PoseSE3.to_compact (PoseSE3.add (E := Expr 7 7) (vars 7 7) (pars 7 7))) _ ?_ ?_ ?_
  · reflect_rfl
  · intro i; fin_cases i <;> simp [PoseSE3.add, PoseSE3.to_compact, PoseSE3.jacobian_self_oplus_other_wrt_self_compact, Smooth, vars, pars]
  · jac_entries [PoseSE3.add, PoseSE3.to_compact, PoseSE3.jacobian_self_oplus_other_wrt_self_compact]

theorem PoseSE3_add_wrt_other (p q : Fin 7 → ℝ) :
    HasFDerivAt (fun o => PoseSE3.add p o) (toCLM (PoseSE3.jacobian_self_oplus_other_wrt_other p q)) q := by
  refine hasFDerivAt_of_reflect p q _ (PoseSE3.add (E := Expr 7 7) (pars 7 7) (vars 7 7)) _ ?_ ?_ ?_
  · reflect_rfl
  · intro i; fin_cases i <;> simp [PoseSE3.add, PoseSE3.jacobian_self_oplus_other_wrt_other, Smooth, vars, pars]
  · jac_entries [PoseSE3.add, PoseSE3.jacobian_self_oplus_other_wrt_other]

theorem PoseSE3_add_wrt_other_compact (p q : Fin 7 → ℝ) :
    HasFDerivAt (fun o => PoseSE3.to_compact (PoseSE3.add p o)) (toCLM (PoseSE3.jacobian_self_oplus_other_wrt_other_compact p q)) q := by
  refine hasFDerivAt_of_reflect p q _ (PoseSE3.to_compact (PoseSE3.add (E := Expr 7 7) (pars 7 7) (vars 7 7))) _ ?_ ?_ ?_
  · reflect_rfl
  · intro i; fin_cases i <;> simp [PoseSE3.add, PoseSE3.to_compact, PoseSE3.jacobian_self_oplus_other_wrt_other_compact, Smooth, vars, pars]
  · jac_entries [PoseSE3.add, PoseSE3.to_compact, PoseSE3.jacobian_self_oplus_other_wrt_other_compact]

/-- the `_compact` variant is the first 6 rows of the full Jacobian -/
theorem PoseSE3_add_wrt_self_compact_rows (p q : Fin 7 → ℝ) (i : Fin 6) (j : Fin 7) :
    PoseSE3.jacobian_self_oplus_other_wrt_self_compact p q i j = PoseSE3.jacobian_self_oplus_other_wrt_self p q (Fin.castLE (by omega) i) j := by
  fin_cases i <;> fin_cases j <;> rfl

/-- the `_compact` variant is the first 6 rows of the full Jacobian -/
theorem PoseSE3_add_wrt_other_compact_rows (p q : Fin 7 → ℝ) (i : Fin 6) (j : Fin 7) :
    PoseSE3.jacobian_self_oplus_other_wrt_other_compact p q i j = PoseSE3.jacobian_self_oplus_other_wrt_other p q (Fin.castLE (by omega) i) j := by
  fin_cases i <;> fin_cases j <;> rfl

theorem PoseSE3_sub_wrt_self_compact (p q : Fin 7 → ℝ) :
    HasFDerivAt (fun s => PoseSE3.to_compact (PoseSE3.sub s q)) (toCLM (PoseSE3.jacobian_self_ominus_other_wrt_self_compact p q)) p := by
  refine hasFDerivAt_of_reflect q p _ (PoseSE3.to_compact (PoseSE3.sub (E := Expr 7 7) (vars 7 7) (pars 7 7))) _ ?_ ?_ ?_
  · reflect_rfl
  · intro i; fin_cases i <;> simp [PoseSE3.sub, PoseSE3.to_compact, PoseSE3.jacobian_self_ominus_other_wrt_self_compact, Smooth, vars, pars]
  · jac_entries [PoseSE3.sub, PoseSE3.to_compact, PoseSE3.jacobian_self_ominus_other_wrt_self_compact]

/-- the `_compact` variant is the first 6 rows of the full Jacobian -/
theorem PoseSE3_sub_wrt_self_compact_rows (p q : Fin 7 → ℝ) (i : Fin 6) (j : Fin 7) :
    PoseSE3.jacobian_self_ominus_other_wrt_self_compact p q i j = PoseSE3.jacobian_self_ominus_other_wrt_self p q (Fin.castLE (by omega) i) j := by
  fin_cases i <;> fin_cases j <;> rfl

/-- the `_compact` variant is the first 6 rows of the full Jacobian -/
theorem PoseSE3_sub_wrt_other_compact_rows (p q : Fin 7 → ℝ) (i : Fin 6) (j : Fin 7) :
    PoseSE3.jacobian_self_ominus_other_wrt_other_compact p q i j = PoseSE3.jacobian_self_ominus_other_wrt_other p q (Fin.castLE (by omega) i) j := by
  fin_cases i <;> fin_cases j <;> rfl

end GraphSlam.Props.C10
