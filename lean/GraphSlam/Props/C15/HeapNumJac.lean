import GraphSlam.Props.C15.HeapFrame

/-!
# C15 (object model) — numerical differentiation at object level: frame

`numJacobianObj` (base_edge.py:159-193) allocates the `jacobian` array, `p0`, and per column a `delta_pose` array, the
perturbed pose and a fresh copy of `p0`; it writes in place only into `delta_pose` and `jacobian` — arrays it allocated
itself.  Hence: every object that existed before the call is bit-identical after it, the edges are untouched, and the
vertex list is the same except for the `pose` reference of the differentiated vertex.
Core Lean only.
-/

namespace GraphSlam.Props.C15.Heap
open GraphSlam GraphSlam.Model GraphSlam.Model.Objects

variable {P E : Type}

theorem Below.alloc {n : Nat} {h0 h : Heap (Obj P E)} (a : Below n h0 h) (o : Obj P E) : Below n h0 (h.alloc o).1 :=
  a.ext (ext_alloc h o)

theorem Below.write {n : Nat} {h0 h : Heap (Obj P E)} (a : Below n h0 h) {i : Nat} (hi : n ≤ i) (o : Obj P E) :
    Below n h0 (h.write i o) :=
  a.trans (below_write h i o a.2.1 hi)

variable [ScalarF E]

/-- the loop of `_calc_jacobian`: objects older than the call (`< n0`, where `n0 ≤ J`: `jacobian` was allocated by the
    call) are untouched, edges are untouched, only the `pose` reference of vertex `k` moves -/
theorem numJacLoopObj_frame (L : PoseLib P E) (uerr : EdgeView P E → Seg E) (e : EdgeO) (k dim : Nat) (eps : E)
    (err0 : Seg E) (p0 J n0 : Nat) (hJ : n0 ≤ J) :
    ∀ (n d : Nat) (w w' : World P E), numJacLoopObj L uerr e k dim eps err0 p0 J n d w = some w' → n0 ≤ w.heap.size →
      Below n0 w.heap w'.heap ∧ w'.edges = w.edges ∧ Rebound k w.vertices w'.vertices := by
  intro n
  induction n with
  | zero =>
    intro d w w' h hn
    simp only [numJacLoopObj] at h
    cases h
    exact ⟨Below.refl hn, rfl, Rebound.refl _ _⟩
  | succ n ih =>
    intro d w w' h hn
    simp only [numJacLoopObj] at h
    split at h
    · exact absurd h (by simp)
    · rename_i w3 h3
      split at h
      · rename_i Jb hJb
        split at h
        · exact absurd h (by simp)
        · rename_i c hc
          obtain ⟨v, cc, hv, hh3, hv3, he3⟩ := vertexIadd_frame h3
          obtain ⟨a, ha, hca⟩ := poseCopy_spec hc
          -- the heaps, in order
          have b1 : Below n0 w.heap (w.heap.alloc (.seg ⟨dim, fun _ => Scalar.ofInt 0⟩)).1 := (Below.refl hn).alloc _
          have b2 := b1.write (i := w.heap.size) hn (.seg (segSetIdx ⟨dim, fun _ => Scalar.ofInt 0⟩ d eps))
          have b3 : Below n0 w.heap w3.heap := by
            rw [hh3]; exact b2.alloc _
          have b4 := b3.write hJ (.block (blockSetCol Jb d fun r =>
            ScalarF.div ((uerr (w3.edgeView e)).get r - err0.get r) eps))
          have b5 : Below n0 w.heap c.1 := by
            rw [hca]; exact b4.alloc _
          obtain ⟨r1, r2, r3⟩ := ih (d + 1) _ w' h b5.2.1
          refine ⟨b5.trans r1, ?_, ?_⟩
          · rw [r2]; exact he3
          · refine Rebound.trans ?_ r3
            show Rebound k w.vertices (rebindList w3.vertices k c.2)
            rw [hv3]
            exact (Rebound.step k _ _).trans (Rebound.step k _ _)
      · exact absurd h (by simp)

/-- after at least one column, the differentiated vertex is bound to an object allocated by the loop (the last
    `p0.copy()`); with no column (`dim = 0`) the vertex list is untouched -/
theorem numJacLoopObj_rebinds (L : PoseLib P E) (uerr : EdgeView P E → Seg E) (e : EdgeO) (k dim : Nat) (eps : E)
    (err0 : Seg E) (p0 J : Nat) :
    ∀ (n d : Nat) (w w' : World P E), numJacLoopObj L uerr e k dim eps err0 p0 J n d w = some w' →
      (n = 0 ∧ w'.vertices = w.vertices) ∨
      (0 < n ∧ ∃ id, w.heap.size ≤ id ∧ w'.vertices = rebindList w.vertices k id ∧ ∃ v, w.vertices[k]? = some v) := by
  intro n
  induction n with
  | zero =>
    intro d w w' h
    simp only [numJacLoopObj] at h
    cases h
    exact Or.inl ⟨rfl, rfl⟩
  | succ n ih =>
    intro d w w' h
    simp only [numJacLoopObj] at h
    split at h
    · exact absurd h (by simp)
    · rename_i w3 h3
      split at h
      · rename_i Jb hJb
        split at h
        · exact absurd h (by simp)
        · rename_i c hc
          obtain ⟨v, cc, hv, hh3, hv3, he3⟩ := vertexIadd_frame h3
          obtain ⟨a, ha, hca⟩ := poseCopy_spec hc
          have hs3 : w3.heap.size = w.heap.size + 2 := by
            rw [hh3]; simp
          have hc2 : c.2 = w.heap.size + 2 := by rw [hca.id]; simp [hs3]
          have hcs : c.1.size = w.heap.size + 3 := by rw [hca.size]; simp [hs3]
          refine Or.inr ⟨Nat.succ_pos _, ?_⟩
          have hvs : (({ w3 with heap := c.1 } : World P E).rebind k c.2).vertices = rebindList w.vertices k c.2 := by
            show rebindList w3.vertices k c.2 = _
            rw [hv3]; exact rebindList_rebindList _ _ _ _
          rcases ih (d + 1) _ w' h with ⟨_, hw'⟩ | ⟨_, id, hid, hw', _⟩
          · exact ⟨c.2, by omega, by rw [hw', hvs], v, hv⟩
          · refine ⟨id, ?_, ?_, v, hv⟩
            · have : (({ w3 with heap := c.1 } : World P E).rebind k c.2).heap.size = w.heap.size + 3 := hcs
              omega
            · rw [hw', hvs]; exact rebindList_rebindList _ _ _ _
      · exact absurd h (by simp)

/-- **`_calc_jacobian` never writes into an array that existed before the call**, never touches an edge, and re-binds
    only the `pose` attribute of the differentiated vertex; the returned `jacobian` is a new object -/
theorem numJacobianObj_frame (L : PoseLib P E) (uerr : EdgeView P E → Seg E) (w w' : World P E) (ei vi dim : Nat)
    (eps : E) (J : Nat) (h : numJacobianObj L uerr w ei vi dim eps = some (w', J)) :
    Ext w.heap w'.heap ∧ w'.edges = w.edges ∧ J = w.heap.size ∧
      ∃ e k, w.edges[ei]? = some e ∧ e.verts[vi]? = some k ∧ Rebound k w.vertices w'.vertices := by
  unfold numJacobianObj at h
  split at h
  · exact absurd h (by simp)
  · rename_i e he
    split at h
    · exact absurd h (by simp)
    · rename_i k hk
      split at h
      · exact absurd h (by simp)
      · rename_i v hv
        dsimp only at h
        split at h
        · exact absurd h (by simp)
        · rename_i c hc
          obtain ⟨w'', hw'', hpair⟩ := Option.map_eq_some_iff.1 h
          cases hpair
          obtain ⟨a, ha, hca⟩ := poseCopy_spec hc
          have b1 : Below w.heap.size w.heap c.1 := by
            rw [hca]; exact ((Below.refl (Nat.le_refl _)).alloc _).alloc _
          obtain ⟨r1, r2, r3⟩ := numJacLoopObj_frame L uerr e k dim eps _ c.2 _ w.heap.size (Nat.le_refl _) dim 0 _ _
            hw'' b1.2.1
          exact ⟨(ext_iff_below _ _).2 (b1.trans r1), r2, rfl, e, k, he, hk, r3⟩

/-- **Identity changes.**  With `dim > 0`, after `_calc_jacobian` the differentiated vertex holds an object that did not
    exist before the call (the last `p0.copy()`); every other vertex record is the same (`rebindList`). -/
theorem numJacobianObj_rebinds (L : PoseLib P E) (uerr : EdgeView P E → Seg E) (w w' : World P E) (ei vi dim : Nat)
    (eps : E) (J : Nat) (h : numJacobianObj L uerr w ei vi dim eps = some (w', J)) (hdim : 0 < dim) :
    ∃ e k v id, w.edges[ei]? = some e ∧ e.verts[vi]? = some k ∧ w.vertices[k]? = some v ∧ w.heap.size ≤ id ∧
      w'.vertices = rebindList w.vertices k id := by
  unfold numJacobianObj at h
  split at h
  · exact absurd h (by simp)
  · rename_i e he
    split at h
    · exact absurd h (by simp)
    · rename_i k hk
      split at h
      · exact absurd h (by simp)
      · rename_i v hv
        dsimp only at h
        split at h
        · exact absurd h (by simp)
        · rename_i c hc
          obtain ⟨w'', hw'', hpair⟩ := Option.map_eq_some_iff.1 h
          cases hpair
          obtain ⟨a, ha, hca⟩ := poseCopy_spec hc
          have hcs : c.1.size = w.heap.size + 2 := by rw [hca.size]; simp
          rcases numJacLoopObj_rebinds L uerr e k dim eps _ c.2 _ dim 0 _ _ hw'' with ⟨hz, _⟩ | ⟨_, id, hid, hw', _⟩
          · omega
          · exact ⟨e, k, v, id, he, hk, hv, by simp only at hid; omega, hw'⟩

end GraphSlam.Props.C15.Heap
