import GraphSlam.Props.C15.Heap

/-!
# C15 (object model) — non-vacuity: a concrete ALIASED world on which the hypotheses of the theorems hold and the
operations run (evaluated by the kernel: the model is executable)

A toy pose library over `Int` (`p ⊞ δ = p + δ[0]`, `copy = id`, …) and a world in which two vertices hold the SAME pose
object, which is also the `estimate` object of the edge (a vertex initialised with an edge's measurement, a shared
`origin`):

```
heap:      #0 = pose 10      #1 = block [[1]]  (information)
vertices:  v0 = (id 0, pose #0, free, g 0)     v1 = (id 1, pose #0, free, g 1)
edges:     e0 = (vertices [0, 1], estimate #0, information #1)
```
-/

namespace GraphSlam.Props.C15.Heap.Examples
open GraphSlam GraphSlam.Model GraphSlam.Model.Objects GraphSlam.Props.C15.Heap

/-- integer "floats" for the examples -/
local instance : ScalarF Int where
  ofInt z := z
  cos := id
  sin := id
  pi := 3
  pymod a b := a % b
  sqrt := id
  div a b := a / b
  gt a b := decide (a > b)
  ge a b := decide (a ≥ b)

def toyLib : PoseLib Int Int where
  oplus a b := some (a + b)
  ominus a b := some (a - b)
  boxplus p δ := p + δ 0
  inverse p := -p
  copy p := p
  normalize p := some (p / 2)
  to_compact p := ⟨1, fun _ => p⟩
  cdim _ := 1

def w0 : World Int Int :=
  { heap := ⟨#[.pose 10, .block ⟨1, 1, fun _ _ => 1⟩]⟩,
    vertices := [⟨0, 0, false, 0⟩, ⟨1, 0, false, 1⟩],
    edges := [⟨[0, 1], 0, 1, none⟩] }

theorem w0_wf : w0.WF := by
  refine ⟨fun v hv => ?_, fun e he => ?_⟩
  · simp [w0] at hv; rcases hv with rfl | rfl <;> decide
  · simp [w0] at he; subst he; exact ⟨by decide, by decide, fun o ho => by simp at ho⟩

theorem w0_refines : Refines w0 [10, 10] := rfl

theorem w0_vwf : VWF w0 := w0_wf.1

/-- the increment `dx = [1, 2]` -/
def dx12 : Seg Int := ⟨2, fun t => if t = 0 then 1 else 2⟩

/-- one iteration on the aliased world runs, and the hypotheses of `optimizeStepObj_shared` hold: the two vertices that
    shared object #0 now hold objects #4 and #6 with `10 + 1` and `10 + 2` (not `10 + 1 + 2` twice), and #0 — still the
    edge's estimate — is still `10` -/
example : ∃ w', optimizeStepObj toyLib [] dx12 w0 = some w' ∧ w'.vertices.map (·.pose) = [4, 6] ∧
    poseOf w'.heap 4 = some 11 ∧ poseOf w'.heap 6 = some 12 ∧ poseOf w'.heap 0 = some 10 ∧ w'.edges = w0.edges :=
  ⟨_, rfl, rfl, rfl, rfl, rfl, rfl⟩

example : ∃ v1 v2 c, w0.vertices[0]? = some v1 ∧ w0.vertices[1]? = some v2 ∧ v1.pose = v2.pose ∧
    poseOf w0.heap v1.pose = some c ∧ v1.gidx ∉ ([] : List Nat) ∧ v2.gidx ∉ ([] : List Nat) :=
  ⟨_, _, 10, rfl, rfl, rfl, rfl, by simp, by simp⟩

/-- the error of a custom edge: `estimate - (p1 - p0)` read through the view -/
def uerr (v : EdgeView Int Int) : Seg Int :=
  match v.poses, v.estimate with
  | [some a, some b], some (.pose z) => ⟨1, fun _ => z - (b - a)⟩
  | _, _ => ⟨1, fun _ => 0⟩

/-- numerical differentiation w.r.t. vertex 1 of the edge runs on the aliased world (hypotheses of `numJacobianObj_pure`
    / `numJacobianObj_refines`: `w0_wf`, `w0_refines`, `copy p = p`): vertex 1 is re-bound to a NEW object (#6) with the OLD
    content, vertex 0 (which shared the object) still holds #0, and the Jacobian object #2 holds the forward difference -/
example : ∃ w' J, numJacobianObj toyLib uerr w0 0 1 1 1 = some (w', J) ∧ J = 2 ∧ w'.vertices.map (·.pose) = [0, 6] ∧
    poseOf w'.heap 6 = some 10 ∧ poseOf w'.heap 0 = some 10 ∧
    (match w'.heap.get? J with | some (.block b) => b.get 0 0 | _ => 0) = -1 :=
  ⟨_, _, rfl, rfl, rfl, rfl, rfl, rfl⟩

/-- a history mixing queries, numerical differentiation, `optimize` and a copy runs -/
example : ∃ w', run toyLib [.calcErrorOdo 0, .numJacobian uerr 0 0 1 1, .copy 0, .optimize (fun _ _ => dx12) true 2,
    .query (fun v => [.seg ⟨v.vertices.length, fun _ => 0⟩])] w0 = some w' ∧
    w'.heap.get? 0 = w0.heap.get? 0 ∧ w'.vertices.map (·.fixed) = [true, false] :=
  ⟨_, rfl, rfl, rfl⟩

/-- `normalize` is the one library operation that is not append-only: it changes the object in place — and, the object
    being shared, both vertices and the edge see it -/
example : ∃ w', exec toyLib (.normalize 0) w0 = some w' ∧ w'.poses = [some 5, some 5] ∧ w'.heap.size = w0.heap.size :=
  ⟨_, rfl, rfl, rfl⟩

end GraphSlam.Props.C15.Heap.Examples
