import GraphSlam.Props.C15.HeapNumJac

/-!
# C15 (object model) — reading the world through its references: `Refines`, and the numerical-differentiation loop
refines `Model.numJacobian`

`Refines w ps`: every vertex of `w` is bound to a pose object, and the contents, in graph order, are `ps` — the store of
the value-semantics models.  The object-level `_calc_jacobian` (`numJacobianObj`) run on a world that refines `ps`
ends in a world that refines the final store of `Model.numJacobian`, and its `jacobian` object holds the columns
`Model.numJacobian` returns.  Core Lean only.
-/

namespace GraphSlam.Props.C15.Heap
open GraphSlam GraphSlam.Model GraphSlam.Model.Objects

variable {P E : Type}

/-! ### pose contents are preserved by allocation and by writes into non-pose objects -/

/-- every pose object of `h` is a pose object of `h'` with the same entries -/
def PosePres (h h' : Heap (Obj P E)) : Prop := ∀ id c, poseOf h id = some c → poseOf h' id = some c

theorem PosePres.refl (h : Heap (Obj P E)) : PosePres h h := fun _ _ a => a

theorem PosePres.trans {h1 h2 h3 : Heap (Obj P E)} (a : PosePres h1 h2) (b : PosePres h2 h3) : PosePres h1 h3 :=
  fun id c hc => b id c (a id c hc)

theorem posePres_of_ext {h h' : Heap (Obj P E)} (a : Ext h h') : PosePres h h' :=
  fun id c hc => by rw [a.poseOf (poseOf_lt hc)]; exact hc

theorem posePres_alloc (h : Heap (Obj P E)) (o : Obj P E) : PosePres h (h.alloc o).1 := posePres_of_ext (ext_alloc h o)

/-- an in-place write into an array (not a pose object) leaves every pose object alone -/
theorem posePres_write (h : Heap (Obj P E)) (i : Nat) (o : Obj P E) (hcur : ∀ p, h.get? i ≠ some (.pose p)) :
    PosePres h (h.write i o) := by
  intro id c hc
  have hne : i ≠ id := by
    intro hh; subst hh; exact hcur c (poseOf_eq_some.1 hc)
  rw [poseOf_congr (get?_write_ne h i o id hne)]; exact hc

/-! ### `Refines` -/

/-- the world read through its vertex references is the store `ps` -/
def Refines (w : World P E) (ps : List P) : Prop := w.poses = ps.map some

theorem Refines.getElem? {w : World P E} {ps : List P} (r : Refines w ps) (j : Nat) :
    (w.vertices[j]?).map (fun v => poseOf w.heap v.pose) = (ps[j]?).map some := by
  have := congrArg (fun l => l[j]?) r
  simpa [World.poses, List.getElem?_map] using this

theorem Refines.pose {w : World P E} {ps : List P} (r : Refines w ps) {j : Nat} {v : VertexO}
    (hv : w.vertices[j]? = some v) : ∃ p, ps[j]? = some p ∧ poseOf w.heap v.pose = some p := by
  have := r.getElem? j
  rw [hv] at this
  cases hp : ps[j]? with
  | none => rw [hp] at this; exact absurd this (by simp)
  | some p => rw [hp] at this; exact ⟨p, rfl, by simpa using this⟩

theorem Refines.length {w : World P E} {ps : List P} (r : Refines w ps) : ps.length = w.vertices.length := by
  have := congrArg List.length r
  simpa [World.poses] using this.symm

theorem Refines.poseOfVertex {w : World P E} {ps : List P} (r : Refines w ps) (i : Nat) : w.poseOfVertex i = ps[i]? := by
  unfold World.poseOfVertex
  have := r.getElem? i
  cases hv : w.vertices[i]? with
  | none => rw [hv] at this; cases hp : ps[i]? with
    | none => rfl
    | some p => rw [hp] at this; exact absurd this (by simp)
  | some v =>
    obtain ⟨p, hp, hpo⟩ := r.pose hv
    simp [hp, hpo]

/-- every vertex reference is a live object -/
theorem Refines.wf {w : World P E} {ps : List P} (r : Refines w ps) : ∀ v ∈ w.vertices, v.pose < w.heap.size := by
  intro v hv
  obtain ⟨j, hj⟩ := List.getElem?_of_mem hv
  obtain ⟨p, _, hp⟩ := r.pose hj
  exact poseOf_lt hp

/-- re-binding vertex `k` to a pose object with entries `c` (in a heap that kept all pose objects): the store is `ps`
    with entry `k` replaced by `c` -/
theorem Refines.rebind {w : World P E} {ps : List P} (r : Refines w ps) {h' : Heap (Obj P E)} (hp : PosePres w.heap h')
    (k id : Nat) (c : P) (hc : poseOf h' id = some c) :
    Refines ⟨h', rebindList w.vertices k id, w.edges⟩ (ps.set k c) := by
  unfold Refines World.poses
  apply List.ext_getElem?
  intro j
  have hj := r.getElem? j
  simp only [List.getElem?_map, rebindList_getElem?, List.getElem?_set]
  by_cases hjk : j = k
  · subst hjk
    simp only [if_true]
    cases hv : w.vertices[j]? with
    | none =>
      rw [hv] at hj
      cases hps : ps[j]? with
      | none =>
        have : ¬ j < ps.length := by
          intro hlt; rw [List.getElem?_eq_getElem hlt] at hps; exact absurd hps (by simp)
        simp [this]
      | some p => rw [hps] at hj; exact absurd hj (by simp)
    | some v =>
      obtain ⟨p, hps, _⟩ := r.pose hv
      have hlt : j < ps.length := by
        cases Nat.lt_or_ge j ps.length with
        | inl hh => exact hh
        | inr hh => rw [List.getElem?_eq_none hh] at hps; exact absurd hps (by simp)
      simp [hlt, hc]
  · have hkj : ¬ k = j := fun hh => hjk hh.symm
    simp only [hjk, hkj, if_false]
    cases hv : w.vertices[j]? with
    | none => rw [hv] at hj; rw [← hj]; rfl
    | some v =>
      obtain ⟨p, hps, hpo⟩ := r.pose hv
      simp [hps, hp _ _ hpo]

/-- … and replacing the heap alone keeps the store -/
theorem Refines.heap {w : World P E} {ps : List P} (r : Refines w ps) {h' : Heap (Obj P E)} (hp : PosePres w.heap h') :
    Refines ⟨h', w.vertices, w.edges⟩ ps := by
  unfold Refines World.poses
  apply List.ext_getElem?
  intro j
  simp only [List.getElem?_map]
  cases hv : w.vertices[j]? with
  | none => have := r.getElem? j; rw [hv] at this; rw [← this]; rfl
  | some v =>
    obtain ⟨p, hps, hpo⟩ := r.pose hv
    simp [hps, hp _ _ hpo]

/-! ### the value-level error function of an edge -/

/-- what the edge reads when the vertex poses are `ps` and its own arrays are those of heap `h0` -/
def viewOf (h0 : Heap (Obj P E)) (e : EdgeO) (ps : List P) : EdgeView P E :=
  ⟨e.verts.map (fun i => ps[i]?), h0.get? e.estimate, h0.get? e.information, e.offset.map h0.get?⟩

/-- the `err` argument of `Model.numJacobian`: the edge's `calc_error` as a function of the store -/
def errOf (uerr : EdgeView P E → Seg E) (h0 : Heap (Obj P E)) (e : EdgeO) : List P → Nat → E :=
  fun ps => (uerr (viewOf h0 e ps)).get

/-- the edge's arrays are older than `n0` -/
def EdgeBelow (e : EdgeO) (n0 : Nat) : Prop :=
  e.estimate < n0 ∧ e.information < n0 ∧ ∀ o, e.offset = some o → o < n0

theorem edgeView_eq {w : World P E} {ps : List P} (r : Refines w ps) {h0 : Heap (Obj P E)} {n0 : Nat}
    (hb : Below n0 h0 w.heap) {e : EdgeO} (he : EdgeBelow e n0) : w.edgeView e = viewOf h0 e ps := by
  unfold World.edgeView viewOf
  have h1 : List.map w.poseOfVertex e.verts = List.map (fun i => ps[i]?) e.verts :=
    List.map_congr_left (fun i _ => r.poseOfVertex i)
  have h2 := hb.2.2 _ he.1
  have h3 := hb.2.2 _ he.2.1
  have h4 : Option.map w.heap.get? e.offset = Option.map h0.get? e.offset := by
    cases ho : e.offset with
    | none => rfl
    | some o => simp [hb.2.2 o (he.2.2 o ho)]
  rw [h1, h2, h3, h4]

/-! ### the loop -/

/-- the `jacobian` object `Jb` holds the columns computed so far -/
def ColsRel (Jb : Block E) (cols : List (Nat → E)) : Prop := ∀ j c, cols[j]? = some c → ∀ a, Jb.get a j = c a

variable [ScalarF E]

theorem numJacLoopObj_refines (L : PoseLib P E) (uerr : EdgeView P E → Seg E) (e : EdgeO) (k dim : Nat) (eps : E)
    (err0 : Seg E) (p0 J : Nat) (h0 : Heap (Obj P E)) (n0 : Nat) (p0c : P) (he : EdgeBelow e n0) (hJ : n0 ≤ J) :
    ∀ (n d : Nat) (w w' : World P E) (ps : List P) (cols : List (Nat → E)) (Jb : Block E),
      numJacLoopObj L uerr e k dim eps err0 p0 J n d w = some w' →
      Refines w ps → Below n0 h0 w.heap → poseOf w.heap p0 = some p0c → w.heap.get? J = some (.block Jb) →
      ColsRel Jb cols → cols.length = d →
      ∃ Jb', w'.heap.get? J = some (.block Jb') ∧ Jb'.r = Jb.r ∧ Jb'.c = Jb.c ∧
        Refines w' (numJacLoop (errOf uerr h0 e) L.boxplus L.copy k eps err0.get p0c n d ps cols).2 ∧
        ColsRel Jb' (numJacLoop (errOf uerr h0 e) L.boxplus L.copy k eps err0.get p0c n d ps cols).1 := by
  intro n
  induction n with
  | zero =>
    intro d w w' ps cols Jb h r hb hp0 hJb hcols hlen
    simp only [numJacLoopObj] at h
    cases h
    exact ⟨Jb, hJb, rfl, rfl, by simpa [numJacLoop] using r, by simpa [numJacLoop] using hcols⟩
  | succ n ih =>
    intro d w w' ps cols Jb h r hb hp0 hJb hcols hlen
    simp only [numJacLoopObj] at h
    split at h
    · exact absurd h (by simp)
    · rename_i w3 h3
      split at h
      · rename_i Jb3 hJb3
        split at h
        · exact absurd h (by simp)
        · rename_i c hc
          -- names for the heaps
          generalize hzero : (Obj.seg (⟨dim, fun _ => Scalar.ofInt 0⟩ : Seg E) : Obj P E) = zeros at h3
          generalize hunit : (Obj.seg (segSetIdx (⟨dim, fun _ => Scalar.ofInt 0⟩ : Seg E) d eps) : Obj P E) = unit at h3
          -- h1 = after np.zeros, h2 = after delta_pose[d] = EPS
          have hJlt : J < w.heap.size := lt_size_of_get? _ _ _ hJb
          have hsz1 : (w.heap.alloc zeros).1.size = w.heap.size + 1 := size_alloc _ _
          have pp2 : PosePres w.heap ((w.heap.alloc zeros).1.write w.heap.size unit) :=
            (posePres_alloc _ _).trans (posePres_write _ _ _ (by
              intro p; rw [get?_alloc_self, ← hzero]; simp))
          have hδ : ((w.heap.alloc zeros).1.write w.heap.size unit).get? w.heap.size = some unit :=
            get?_write_self _ _ _ (by rw [hsz1]; omega)
          have hb2 : Below n0 h0 ((w.heap.alloc zeros).1.write w.heap.size unit) :=
            (hb.alloc _).write hb.2.1 _
          have hJ2 : ((w.heap.alloc zeros).1.write w.heap.size unit).get? J = some (.block Jb) := by
            rw [get?_write_ne _ _ _ _ (by omega), get?_alloc]; simp [Nat.ne_of_lt hJlt, hJb]
          -- the `+=`
          obtain ⟨v, rr, hv, hadd, hh3, hv3, he3⟩ := vertexIadd_spec h3
          simp only [alloc_snd] at hadd hh3 hv3 hv he3
          obtain ⟨cur, hcur, hcase⟩ := poseAdd_spec hadd
          have hrr : IsAlloc ((w.heap.alloc zeros).1.write w.heap.size unit) rr
              (.pose (L.boxplus cur (unitDelta d eps))) := by
            rcases hcase with ⟨b, _, hq, _, _⟩ | ⟨s, hq, hal⟩
            · rw [hδ, ← hunit] at hq; exact absurd hq (by simp)
            · rw [hδ, ← hunit] at hq
              have hs : s = segSetIdx (⟨dim, fun _ => Scalar.ofInt 0⟩ : Seg E) d eps := by
                injection hq with hq; injection hq with hq; exact hq.symm
              rw [hs] at hal
              exact hal
          obtain ⟨p, hpk, hpv⟩ := r.pose hv
          have hcurp : cur = p := by
            have := pp2 _ _ hpv
            rw [hcur] at this; exact Option.some.inj this
          subst hcurp
          -- the world after `+=` refines `ps1`
          have pp3 : PosePres w.heap w3.heap := by rw [hh3]; exact pp2.trans (posePres_of_ext hrr.ext)
          have r3 : Refines w3 (ps.set k (L.boxplus cur (unitDelta d eps))) := by
            have := r.rebind pp3 k rr.2 (L.boxplus cur (unitDelta d eps)) (by
              rw [hh3, poseOf_eq_some]; exact hrr.get?)
            have hw3 : w3 = ⟨w3.heap, rebindList w.vertices k rr.2, w.edges⟩ := by
              cases w3; simp only at hv3 he3; rw [hv3, he3]
            rw [hw3]; exact this
          have hb3 : Below n0 h0 w3.heap := by rw [hh3]; exact hb2.ext hrr.ext
          have hJ3 : w3.heap.get? J = some (.block Jb) := by rw [hh3]; exact hrr.ext.get? hJ2
          have hJbeq : Jb3 = Jb := by
            rw [hJ3] at hJb3; injection hJb3 with hq; injection hq with hq; exact hq.symm
          subst hJbeq
          have hview : w3.edgeView e = viewOf h0 e (ps.set k (L.boxplus cur (unitDelta d eps))) := edgeView_eq r3 hb3 he
          rw [hview] at hc
          -- h4 = after jacobian[:, d] = …
          generalize hcol : (fun r => ScalarF.div ((uerr (viewOf h0 e (ps.set k (L.boxplus cur (unitDelta d eps))))).get r
            - err0.get r) eps) = col at hc
          have hJ3lt : J < w3.heap.size := lt_size_of_get? _ _ _ hJ3
          have pp4 : PosePres w3.heap (w3.heap.write J (.block (blockSetCol Jb3 d col))) :=
            posePres_write _ _ _ (by intro q; rw [hJ3]; simp)
          have hb4 : Below n0 h0 (w3.heap.write J (.block (blockSetCol Jb3 d col))) := hb3.write hJ _
          have hJ4 : (w3.heap.write J (.block (blockSetCol Jb3 d col))).get? J = some (.block (blockSetCol Jb3 d col)) :=
            get?_write_self _ _ _ hJ3lt
          -- the restore
          obtain ⟨a, ha, hca⟩ := poseCopy_spec hc
          have hp0' : poseOf (w3.heap.write J (.block (blockSetCol Jb3 d col))) p0 = some p0c := pp4 _ _ (pp3 _ _ hp0)
          have hap : a = p0c := by rw [hp0'] at ha; exact (Option.some.inj ha).symm
          subst hap
          have pp5 : PosePres w3.heap c.1 := pp4.trans (posePres_of_ext hca.ext)
          have r5 : Refines (({ w3 with heap := c.1 } : World P E).rebind k c.2)
              ((ps.set k (L.boxplus cur (unitDelta d eps))).set k (L.copy a)) := by
            have := r3.rebind pp5 k c.2 (L.copy a) (by rw [poseOf_eq_some]; exact hca.get?)
            exact this
          have hb5 : Below n0 h0 c.1 := hb4.ext hca.ext
          have hp05 : poseOf c.1 p0 = some a := posePres_of_ext hca.ext _ _ hp0'
          have hJ5 : c.1.get? J = some (.block (blockSetCol Jb3 d col)) := hca.ext.get? hJ4
          have hcols5 : ColsRel (blockSetCol Jb3 d col) (cols ++ [col]) := by
            intro j cc hj a'
            by_cases hjd : j < cols.length
            · rw [List.getElem?_append_left hjd] at hj
              have : j ≠ d := by omega
              simp [blockSetCol, this, hcols j cc hj a']
            · rw [List.getElem?_append_right (by omega)] at hj
              have hj0 : j - cols.length = 0 := by
                cases hx : j - cols.length with
                | zero => rfl
                | succ m => rw [hx] at hj; simp at hj
              rw [hj0] at hj
              have hjd' : j = d := by omega
              have hcc : col = cc := by simpa using hj
              simp [blockSetCol, hjd', hcc]
          obtain ⟨Jb', g1, g2, g3, g4, g5⟩ := ih (d + 1) _ w' _ (cols ++ [col]) (blockSetCol Jb3 d col) h r5
            (by exact hb5) (by exact hp05) (by exact hJ5) hcols5 (by simp [hlen])
          refine ⟨Jb', g1, g2, g3, ?_, ?_⟩
          · simp only [numJacLoop, hpk, setAt]
            rw [← hcol] at g4
            exact g4
          · simp only [numJacLoop, hpk, setAt]
            rw [← hcol] at g5
            exact g5
      · exact absurd h (by simp)

omit [ScalarF E] in
theorem WF.edgeBelow {w : World P E} (hw : w.WF) {ei : Nat} {e : EdgeO} (he : w.edges[ei]? = some e) :
    EdgeBelow e w.heap.size := hw.2 e (List.mem_of_getElem? he)

/-- **Refinement (numerical differentiation).**  On a world whose vertices hold the poses `ps`, the object-level
    `_calc_jacobian` ends in a world whose vertices hold the final store of `Model.numJacobian` (same `err`, `⊞`, `copy`,
    `k`, `dim`, `ε`), and the returned `jacobian` object (`err.shape + (dim,)`) holds the columns `Model.numJacobian`
    returns. -/
theorem numJacobianObj_refines (L : PoseLib P E) (uerr : EdgeView P E → Seg E) (w w' : World P E) (ei vi dim : Nat)
    (eps : E) (J : Nat) (ps : List P) (hw : w.WF) (r : Refines w ps)
    (h : numJacobianObj L uerr w ei vi dim eps = some (w', J)) :
    ∃ e k, w.edges[ei]? = some e ∧ e.verts[vi]? = some k ∧
      Refines w' (numJacobian (errOf uerr w.heap e) L.boxplus L.copy k dim eps ps).2 ∧
      ∃ Jb, w'.heap.get? J = some (.block Jb) ∧ Jb.r = (uerr (w.edgeView e)).len ∧ Jb.c = dim ∧
        ColsRel Jb (numJacobian (errOf uerr w.heap e) L.boxplus L.copy k dim eps ps).1 := by
  unfold numJacobianObj at h
  split at h
  · exact absurd h (by simp)
  · rename_i e he
    split at h
    · exact absurd h (by simp)
    · rename_i k hk
      split at h
      · exact absurd h (by simp)
      · rename_i v hv
        dsimp only at h
        split at h
        · exact absurd h (by simp)
        · rename_i c hc
          obtain ⟨w'', hw'', hpair⟩ := Option.map_eq_some_iff.1 h
          cases hpair
          refine ⟨e, k, he, hk, ?_⟩
          have heb := WF.edgeBelow hw he
          obtain ⟨p, hpk, hpv⟩ := r.pose hv
          have hview : w.edgeView e = viewOf w.heap e ps := edgeView_eq r (Below.refl (Nat.le_refl _)) heb
          generalize hz : (Obj.block (⟨(uerr (w.edgeView e)).len, dim, fun _ _ => Scalar.ofInt 0⟩ : Block E) : Obj P E)
            = zeros at hc hw''
          obtain ⟨a, ha, hca⟩ := poseCopy_spec hc
          have hap : a = p := by
            have := posePres_alloc w.heap zeros _ _ hpv
            rw [ha] at this; exact Option.some.inj this
          subst hap
          have pp : PosePres w.heap c.1 := (posePres_alloc _ _).trans (posePres_of_ext hca.ext)
          have hb : Below w.heap.size w.heap c.1 :=
            ((Below.refl (Nat.le_refl _)).alloc zeros).ext hca.ext
          have hJc : c.1.get? w.heap.size = some (.block ⟨(uerr (w.edgeView e)).len, dim, fun _ _ => Scalar.ofInt 0⟩) := by
            rw [hz]; exact hca.ext.get? (get?_alloc_self _ _)
          have hp0 : poseOf c.1 c.2 = some (L.copy a) := poseOf_eq_some.2 hca.get?
          obtain ⟨Jb', g1, g2, g3, g4, g5⟩ := numJacLoopObj_refines L uerr e k dim eps (uerr (w.edgeView e)) c.2
            w.heap.size w.heap w.heap.size (L.copy a) heb (Nat.le_refl _) dim 0 _ w' ps [] _ hw'' (r.heap pp) hb hp0 hJc
            (by intro j cc hj; simp at hj) rfl
          have hm : numJacobian (errOf uerr w.heap e) L.boxplus L.copy k dim eps ps
              = numJacLoop (errOf uerr w.heap e) L.boxplus L.copy k eps (uerr (w.edgeView e)).get (L.copy a) dim 0 ps [] := by
            simp only [numJacobian, hpk]
            rw [hview]; rfl
          rw [hm]
          exact ⟨g4, Jb', g1, g2, g3, g5⟩

omit [ScalarF E] in
/-- the view is the same when the same contents are read through a re-bound reference -/
theorem view_eq_of_refines {w w' : World P E} {ps : List P} {k : Nat} (hw : w.WF) (hh : Ext w.heap w'.heap)
    (he : w'.edges = w.edges) (hv : Rebound k w.vertices w'.vertices) (r : Refines w ps) (r' : Refines w' ps) :
    w'.view = w.view := by
  unfold World.view
  rw [he]
  congr 1
  · apply List.ext_getElem?
    intro j
    simp only [List.getElem?_map]
    by_cases hjk : j = k
    · subst hjk
      cases hvj : w.vertices[j]? with
      | none =>
        have hl := hv.length
        have : w'.vertices[j]? = none := by
          rw [List.getElem?_eq_none_iff] at hvj ⊢; omega
        rw [this]; rfl
      | some v =>
        obtain ⟨id, hid⟩ := hv.getElem?_self hvj
        obtain ⟨p, hp, hpo⟩ := r.pose hvj
        obtain ⟨p', hp', hpo'⟩ := r'.pose hid
        rw [hp] at hp'
        cases hp'
        rw [hid]
        simp only [Option.map_some]
        rw [poseOf_eq_some.1 hpo, poseOf_eq_some.1 hpo']
    · rw [hv.getElem?_ne hjk]
      cases hvj : w.vertices[j]? with
      | none => rfl
      | some v =>
        simp only [Option.map_some]
        rw [hh.2 v.pose (hw.1 v (List.mem_of_getElem? hvj))]
  · apply List.map_congr_left
    intro e hem
    obtain ⟨a, b, c⟩ := hw.2 e hem
    rw [hh.2 _ a, hh.2 _ b]
    cases ho : e.offset with
    | none => rfl
    | some o => simp [hh.2 o (c o ho)]

end GraphSlam.Props.C15.Heap
