import GraphSlam.Props.C15.HeapBasic

/-!
# C15 (object model) — frame facts at the level of worlds

* `QFrame w w'`   — what a read-only call does: the heap is extended, every binding is the same reference;
* `Rebound k vs vs'` — the vertex list is the same except (possibly) for the `pose` reference of vertex `k`;
* `vertexIadd` (`x.pose += y`) allocates one pose object and re-binds vertex `k` to it.
Core Lean only.
-/

namespace GraphSlam.Props.C15.Heap
open GraphSlam GraphSlam.Model GraphSlam.Model.Objects

variable {P E : Type}

/-- the frame of a read-only call: the heap only grows; vertices and edges hold the same references and flags -/
structure QFrame (w w' : World P E) : Prop where
  heap : Ext w.heap w'.heap
  vertices : w'.vertices = w.vertices
  edges : w'.edges = w.edges

theorem QFrame.refl (w : World P E) : QFrame w w := ⟨Ext.refl _, rfl, rfl⟩

theorem QFrame.trans {w1 w2 w3 : World P E} (a : QFrame w1 w2) (b : QFrame w2 w3) : QFrame w1 w3 :=
  ⟨a.heap.trans b.heap, b.vertices.trans a.vertices, b.edges.trans a.edges⟩

/-- replacing the heap by an extension of it -/
theorem QFrame.of_ext (w : World P E) {h : Heap (Obj P E)} (a : Ext w.heap h) : QFrame w { w with heap := h } :=
  ⟨a, rfl, rfl⟩

/-! ### well-formedness and views -/

theorem WF.of_frame {w w' : World P E} (hw : w.WF) (hs : w.heap.size ≤ w'.heap.size)
    (hv : ∀ v ∈ w'.vertices, v ∈ w.vertices ∨ v.pose < w'.heap.size) (he : w'.edges = w.edges) : w'.WF := by
  refine ⟨fun v hv' => ?_, fun e he' => ?_⟩
  · rcases hv v hv' with h1 | h1
    · exact Nat.lt_of_lt_of_le (hw.1 v h1) hs
    · exact h1
  · rw [he] at he'
    obtain ⟨a, b, c⟩ := hw.2 e he'
    exact ⟨Nat.lt_of_lt_of_le a hs, Nat.lt_of_lt_of_le b hs, fun o ho => Nat.lt_of_lt_of_le (c o ho) hs⟩

theorem QFrame.wf {w w' : World P E} (a : QFrame w w') (hw : w.WF) : w'.WF :=
  WF.of_frame hw a.heap.1 (fun _ hv => Or.inl (a.vertices ▸ hv)) a.edges

/-- reading through the same references in an extended heap gives the same contents -/
theorem view_eq_of_ext {w w' : World P E} (hw : w.WF) (hh : Ext w.heap w'.heap) (hv : w'.vertices = w.vertices)
    (he : w'.edges = w.edges) : w'.view = w.view := by
  unfold World.view
  rw [hv, he]
  congr 1
  · apply List.map_congr_left
    intro v hvm
    rw [hh.2 v.pose (hw.1 v hvm)]
  · apply List.map_congr_left
    intro e hem
    obtain ⟨a, b, c⟩ := hw.2 e hem
    rw [hh.2 _ a, hh.2 _ b]
    cases ho : e.offset with
    | none => rfl
    | some o => simp [hh.2 o (c o ho)]

theorem QFrame.view {w w' : World P E} (a : QFrame w w') (hw : w.WF) : w'.view = w.view :=
  view_eq_of_ext hw a.heap a.vertices a.edges

theorem poses_eq_of_ext {w w' : World P E} (hw : w.WF) (hh : Ext w.heap w'.heap) (hv : w'.vertices = w.vertices) :
    w'.poses = w.poses := by
  unfold World.poses
  rw [hv]
  apply List.map_congr_left
  intro v hvm
  exact hh.poseOf (hw.1 v hvm)

theorem QFrame.poses {w w' : World P E} (a : QFrame w w') (hw : w.WF) : w'.poses = w.poses :=
  poses_eq_of_ext hw a.heap a.vertices

/-! ### `Rebound` -/

/-- `vs'` is `vs` except (possibly) for the `pose` reference of vertex `k` -/
def Rebound (k : Nat) (vs vs' : List VertexO) : Prop := vs' = vs ∨ ∃ id, vs' = rebindList vs k id

theorem Rebound.refl (k : Nat) (vs : List VertexO) : Rebound k vs vs := Or.inl rfl

theorem Rebound.step (k : Nat) (vs : List VertexO) (id : Nat) : Rebound k vs (rebindList vs k id) := Or.inr ⟨id, rfl⟩

theorem Rebound.trans {k : Nat} {a b c : List VertexO} (h1 : Rebound k a b) (h2 : Rebound k b c) : Rebound k a c := by
  rcases h1 with rfl | ⟨i, rfl⟩
  · exact h2
  · rcases h2 with rfl | ⟨j, rfl⟩
    · exact Or.inr ⟨i, rfl⟩
    · exact Or.inr ⟨j, rebindList_rebindList a k i j⟩

theorem Rebound.length {k : Nat} {a b : List VertexO} (h : Rebound k a b) : b.length = a.length := by
  rcases h with rfl | ⟨i, rfl⟩
  · rfl
  · exact rebindList_length a k i

/-- every other vertex is the very same record (same `pose` reference) -/
theorem Rebound.getElem?_ne {k : Nat} {a b : List VertexO} (h : Rebound k a b) {j : Nat} (hj : j ≠ k) : b[j]? = a[j]? := by
  rcases h with rfl | ⟨i, rfl⟩
  · rfl
  · rw [rebindList_getElem?]; simp [hj]

/-- vertex `k` keeps `id`, `fixed`, `gradient_index` -/
theorem Rebound.getElem?_self {k : Nat} {a b : List VertexO} (h : Rebound k a b) {v : VertexO} (hv : a[k]? = some v) :
    ∃ id, b[k]? = some { v with pose := id } := by
  rcases h with rfl | ⟨i, rfl⟩
  · exact ⟨v.pose, hv⟩
  · exact ⟨i, by rw [rebindList_getElem?]; simp [hv]⟩

/-- ids, flags and gradient indices of all vertices are untouched -/
theorem Rebound.attrs {k : Nat} {a b : List VertexO} (h : Rebound k a b) :
    b.map (fun v => (v.id, v.fixed, v.gidx)) = a.map (fun v => (v.id, v.fixed, v.gidx)) := by
  rcases h with rfl | ⟨i, rfl⟩
  · rfl
  · apply List.ext_getElem?
    intro j
    simp only [List.getElem?_map, rebindList_getElem?]
    by_cases hj : j = k
    · subst hj; cases a[j]? <;> simp
    · simp [hj]

/-! ### `x.pose += y` -/

theorem vertexIadd_spec {L : PoseLib P E} {w w' : World P E} {k q : Nat} (h : vertexIadd L w k q = some w') :
    ∃ v r, w.vertices[k]? = some v ∧ poseAdd L w.heap v.pose q = some r ∧
      w'.heap = r.1 ∧ w'.vertices = rebindList w.vertices k r.2 ∧ w'.edges = w.edges := by
  unfold vertexIadd at h
  split at h
  · exact absurd h (by simp)
  · rename_i v hv
    obtain ⟨r, hr, hw⟩ := Option.map_eq_some_iff.1 h
    subst hw
    exact ⟨v, r, hv, hr, rfl, rfl, rfl⟩

/-- `vertices[k].pose += q`: one new pose object (identity = the old heap size), vertex `k` re-bound to it, nothing else -/
theorem vertexIadd_frame {L : PoseLib P E} {w w' : World P E} {k q : Nat} (h : vertexIadd L w k q = some w') :
    ∃ v c, w.vertices[k]? = some v ∧ w'.heap = (w.heap.alloc (.pose c)).1 ∧
      w'.vertices = rebindList w.vertices k w.heap.size ∧ w'.edges = w.edges := by
  obtain ⟨v, r, hv, hr, h1, h2, h3⟩ := vertexIadd_spec h
  obtain ⟨c, hc⟩ := poseAdd_alloc hr
  refine ⟨v, c, hv, ?_, ?_, h3⟩
  · rw [h1, hc]
  · rw [h2, hc]; rfl

end GraphSlam.Props.C15.Heap
