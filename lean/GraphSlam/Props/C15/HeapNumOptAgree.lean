import GraphSlam.Props.C15.HeapNumOpt

/-!
# C15 (object model) — by value, the repaired `optimize` (`optimizeNumObj`) IS the first model (`optimizeObj`)

`optimizeObj` (Model/Heap.lean) treats the assembling pass as read-only; `optimizeNumObj` (Model/HeapNumOpt.lean) runs the
perturb / restore loops of the numerically differentiated edges in it.  They differ in the IDENTITY of pose objects.  This
file proves that they do not differ in anything the library can READ (`World.view`: contents of the vertices' pose objects,
ids, flags, gradient indices, contents of the edges' arrays): for every solver — an arbitrary function of the view, so also
the real `spsolve(H, -b)` of the system assembled from it —, every number of iterations, with or without the closing pass,
on a well-formed world whose poses are fixed points of `copy`:

    `optimizeNumObj … w = some w'  ⟹  ∃ w'', optimizeObj … w = some w'' ∧ w''.view = w'.view`

(`optimizeNumObj_agrees_optimizeObj`).  So every by-value statement proved about `optimizeObj` / `exec (.optimize …)` —
in particular the refinements to `Model.applyDx` / `Model.Run` — transfers to the operation the driver runs.

Ingredients: the update loop never fails on a world whose free vertices are bound to pose objects
(`optimizeStepObj_isSome`); read by value, one iteration is a function of the view (`optimizeStepObj_view`,
`optimizeStepObj_by_view`); the assembling pass does not change the view (`assembleNumObj_view`).
-/

namespace GraphSlam.Props.C15.Heap
open GraphSlam GraphSlam.Gen GraphSlam.Model GraphSlam.Model.Objects

variable {P E : Type}

theorem WF.of_vwf {w w' : World P E} (hw : w.WF) (hs : w.heap.size ≤ w'.heap.size) (hv : VWF w')
    (he : w'.edges = w.edges) : w'.WF :=
  WF.of_frame hw hs (fun v hv' => Or.inr (hv v hv')) he

/-! ### the update loop is total on worlds whose free vertices hold poses -/

/-- `vertices[k].pose += q` with an array operand succeeds: the explicit result -/
theorem vertexIadd_seg_some (L : PoseLib P E) (w : World P E) (k q : Nat) (v : VertexO) (p : P) (s : Seg E)
    (hv : w.vertices[k]? = some v) (hp : poseOf w.heap v.pose = some p) (hq : w.heap.get? q = some (.seg s)) :
    vertexIadd L w k q
      = some (({ w with heap := (w.heap.alloc (.pose (L.boxplus p s.get))).1 } : World P E).rebind k w.heap.size) := by
  unfold vertexIadd
  rw [hv]
  simp only
  unfold poseAdd
  rw [hp, hq]
  rfl

theorem updateLoopObj_isSome (L : PoseLib P E) (fixed : List Nat) (dx : Nat) (s : Seg E) :
    ∀ (n i : Nat) (w : World P E), w.heap.get? dx = some (.seg s) →
      (∀ (j : Nat) (v : VertexO), i ≤ j → w.vertices[j]? = some v → v.gidx ∉ fixed → ∃ p, poseOf w.heap v.pose = some p) →
      ∃ w', updateLoopObj L fixed dx n i w = some w' := by
  intro n
  induction n with
  | zero => intro i w _ _; exact ⟨w, rfl⟩
  | succ n ih =>
    intro i w hdx hp
    simp only [updateLoopObj]
    split
    · exact ⟨w, rfl⟩
    · rename_i v hv
      split
      · exact ih (i + 1) w hdx (fun j v' hj => hp j v' (by omega))
      · rename_i hfree
        obtain ⟨p, hpp⟩ := hp i v (Nat.le_refl _) hv hfree
        rw [hpp, hdx]
        simp only
        generalize hsl : (Obj.seg (⟨L.cdim p, fun t => s.get (v.gidx + t)⟩ : Seg E) : Obj P E) = slice
        have hadd := vertexIadd_seg_some L ({ w with heap := (w.heap.alloc slice).1 } : World P E) i w.heap.size v p
          ⟨L.cdim p, fun t => s.get (v.gidx + t)⟩ hv (posePres_alloc _ _ _ _ hpp) (by rw [← hsl]; exact get?_alloc_self _ _)
        rw [alloc_snd, hadd]
        simp only
        apply ih (i + 1)
        · exact ((ext_alloc _ _).trans (ext_alloc _ _)).get? hdx
        · intro j v' hj hv' hf'
          have hv'' : w.vertices[j]? = some v' := by
            have : (rebindList w.vertices i (w.heap.alloc slice).1.size)[j]? = some v' := hv'
            rw [rebindList_getElem?] at this
            simpa [show j ≠ i by omega] using this
          obtain ⟨p', hp'⟩ := hp j v' (by omega) hv'' hf'
          exact ⟨p', (posePres_alloc _ _).trans (posePres_alloc _ _) _ _ hp'⟩

/-- **One iteration never raises on a world whose free vertices are bound to pose objects** (whatever the increment) -/
theorem optimizeStepObj_isSome (L : PoseLib P E) (fixed : List Nat) (dxv : Seg E) (w : World P E)
    (hp : ∀ (j : Nat) (v : VertexO), w.vertices[j]? = some v → v.gidx ∉ fixed → ∃ p, poseOf w.heap v.pose = some p) :
    ∃ w', optimizeStepObj L fixed dxv w = some w' := by
  unfold optimizeStepObj
  exact updateLoopObj_isSome L fixed _ dxv _ 0 _ (get?_alloc_self _ _)
    (fun j v _ hv hf => by
      obtain ⟨p, hpp⟩ := hp j v hv hf
      exact ⟨p, posePres_alloc _ _ _ _ hpp⟩)

/-! ### read by value, one iteration is a function of the view -/

/-- what `optimizeStepObj` does to the view -/
def stepView (L : PoseLib P E) (fixed : List Nat) (dxv : Seg E) (gv : GraphView P E) : GraphView P E :=
  ⟨gv.vertices.map fun x =>
      if x.2.2.2 ∈ fixed then x
      else (x.1, (match x.2.1 with
                  | some (.pose p) => some (.pose (L.boxplus p fun t => dxv.get (x.2.2.2 + t)))
                  | _ => none), x.2.2.1, x.2.2.2),
   gv.edges⟩

theorem edges_view_eq {w w' : World P E} (hw : w.WF) (hh : Ext w.heap w'.heap) (he : w'.edges = w.edges) :
    w'.view.edges = w.view.edges := by
  unfold World.view
  simp only
  rw [he]
  apply List.map_congr_left
  intro e hem
  obtain ⟨a, b, c⟩ := hw.2 e hem
  rw [hh.2 _ a, hh.2 _ b]
  cases ho : e.offset with
  | none => rfl
  | some o => simp [hh.2 o (c o ho)]

theorem optimizeStepObj_view (L : PoseLib P E) (fixed : List Nat) (dxv : Seg E) (w w' : World P E) (hw : w.WF)
    (h : optimizeStepObj L fixed dxv w = some w') : w'.view = stepView L fixed dxv w.view := by
  obtain ⟨g1, g2, g3, g4, _⟩ := optimizeStepObj_spec L fixed dxv w w' hw.1 h
  have hedges := edges_view_eq hw g1 g2
  have hverts : w'.view.vertices = (stepView L fixed dxv w.view).vertices := by
    unfold stepView World.view
    simp only
    apply List.ext_getElem?
    intro j
    simp only [List.getElem?_map]
    cases hv : w.vertices[j]? with
    | none =>
      have : w'.vertices[j]? = none := by rw [List.getElem?_eq_none_iff] at hv ⊢; omega
      rw [this]; rfl
    | some v =>
      by_cases hf : v.gidx ∈ fixed
      · rw [(g4 j v hv).1 hf]
        simp [hf, g1.2 v.pose (hw.1 v (List.mem_of_getElem? hv))]
      · obtain ⟨p, id, hp, hb, _, _, he⟩ := (g4 j v hv).2 hf
        rw [hb]
        simp [hf, poseOf_eq_some.1 hp, poseOf_eq_some.1 he]
  cases hvw : w'.view with
  | mk vs es =>
    rw [hvw] at hedges hverts
    simp only at hedges hverts
    rw [hedges, hverts]
    rfl

theorem view_vertex (w : World P E) (j : Nat) :
    w.view.vertices[j]? = (w.vertices[j]?).map fun v => (v.id, w.heap.get? v.pose, v.fixed, v.gidx) := by
  simp [World.view]

/-- **By value, one iteration is a function of the view**: two well-formed worlds that read the same (possibly with
    different object identities, different sharing) are mapped, by the same increment, to worlds that read the same — and
    the iteration succeeds on one iff it does on the other. -/
theorem optimizeStepObj_by_view (L : PoseLib P E) (fixed : List Nat) (dxv : Seg E) (a a' b : World P E) (ha : a.WF)
    (hb : b.WF) (hview : a.view = b.view) (h : optimizeStepObj L fixed dxv a = some a') :
    ∃ b', optimizeStepObj L fixed dxv b = some b' ∧ b'.view = a'.view := by
  obtain ⟨_, _, _, g4, _⟩ := optimizeStepObj_spec L fixed dxv a a' ha.1 h
  have hsome : ∃ b', optimizeStepObj L fixed dxv b = some b' := by
    apply optimizeStepObj_isSome
    intro j v hv hf
    have hj := congrArg (fun g : GraphView P E => g.vertices[j]?) hview
    simp only [view_vertex, hv, Option.map_some] at hj
    cases hva : a.vertices[j]? with
    | none => rw [hva] at hj; exact absurd hj (by simp)
    | some va =>
      rw [hva] at hj
      simp only [Option.map_some, Option.some.injEq, Prod.mk.injEq] at hj
      obtain ⟨_, hc, _, hg⟩ := hj
      obtain ⟨p, _, hp, _⟩ := (g4 j va hva).2 (by rw [hg]; exact hf)
      exact ⟨p, by rw [poseOf_eq_some, ← hc]; exact poseOf_eq_some.1 hp⟩
  obtain ⟨b', hb'⟩ := hsome
  exact ⟨b', hb', by rw [optimizeStepObj_view L fixed dxv b b' hb hb', optimizeStepObj_view L fixed dxv a a' ha h, hview]⟩

theorem optimizeStepObj_wf (L : PoseLib P E) (fixed : List Nat) (dxv : Seg E) (w w' : World P E) (hw : w.WF)
    (h : optimizeStepObj L fixed dxv w = some w') : w'.WF := by
  obtain ⟨g1, g2, _⟩ := optimizeStepObj_spec L fixed dxv w w' hw.1 h
  exact WF.of_vwf hw g1.1 (optimizeStepObj_vwf L fixed dxv w w' hw.1 h) g2

theorem fixFirst_wf (ffp : Bool) (w w1 : World P E) (h : fixFirst ffp w = some w1) (hw : w.WF) : w1.WF := by
  obtain ⟨f1, f2, _⟩ := fixFirst_spec ffp w w1 h
  exact WF.of_vwf hw (by rw [f1]) (fixFirst_vwf ffp w w1 h hw.1) f2

section numopt
variable [ScalarF E]

/-! ### the iterations, and the whole call -/

/-- the iterations of the repaired operation and of the first model, started on worlds that read the same, end on worlds
    that read the same -/
theorem optimizeIters_agree (L : PoseLib P E) (hcc : ∀ p, L.cdim (L.copy p) = L.cdim p)
    (hcdim : ∀ p δ, L.cdim (L.boxplus p δ) = L.cdim p) (G : P → Prop) (hG : ∀ p, G p → L.copy p = p)
    (hGbox : ∀ p δ, G p → G (L.boxplus p δ)) (nes : List (NumEdge P E)) (eps : E) (fixed : List Nat)
    (solve : Nat → GraphView P E → Seg E) :
    ∀ (n i : Nat) (a a' b : World P E) (st : List (Nat × Nat × P)), a.WF → b.WF → a.view = b.view → RefinesSt L a st →
      (∀ x ∈ st, G x.2.2) → optimizeItersNumObj L nes eps fixed solve n i a = some a' →
      ∃ b', optimizeItersObj L fixed solve n i b = some b' ∧ b'.view = a'.view ∧ a'.WF ∧
        ∃ st', RefinesSt L a' st' ∧ ∀ x ∈ st', G x.2.2 := by
  intro n
  induction n with
  | zero =>
    intro i a a' b st ha _ hview r hg h
    simp only [optimizeItersNumObj] at h
    cases h
    exact ⟨b, rfl, hview.symm, ha, st, r, hg⟩
  | succ n ih =>
    intro i a a' b st ha hb hview r hg h
    simp only [optimizeItersNumObj] at h
    obtain ⟨a1, h1, h'⟩ := Option.bind_eq_some_iff.1 h
    obtain ⟨a2, h2, h3⟩ := Option.bind_eq_some_iff.1 h'
    have hfix : ∀ x ∈ st, L.copy x.2.2 = x.2.2 := fun x hx => hG _ (hg x hx)
    have t := assembleNumObj_touched L hcc nes eps a a1 ha.1 h1
    have ha1 : a1.WF := WF.of_vwf ha t.heap.1 (t.vwf ha.1) t.edges
    have hv1 : a1.view = a.view := assembleNumObj_view L hcc nes eps a a1 st ha r hfix h1
    have r1 : RefinesSt L a1 st := assembleNumObj_refines L hcc nes eps a a1 st r hfix h1
    have hview1 : a1.view = b.view := hv1.trans hview
    obtain ⟨b2, hb2, hview2⟩ := optimizeStepObj_by_view L fixed (solve i a1.view) a1 a2 b ha1 hb hview1 h2
    rw [hview1] at hb2
    have ha2 := optimizeStepObj_wf L fixed _ a1 a2 ha1 h2
    have hb2wf := optimizeStepObj_wf L fixed _ b b2 hb hb2
    have r2 := optimizeStepObj_refines L fixed _ a1 a2 st hcdim r1 h2
    obtain ⟨b', hb', hv', hwf', st', r', g'⟩ := ih (i + 1) a2 a' b2 _ ha2 hb2wf hview2.symm r2
      (applyDx_good L G hGbox fixed st _ hg) h3
    refine ⟨b', ?_, hv', hwf', st', r', g'⟩
    simp only [optimizeItersObj, hb2, Option.bind_some]
    exact hb'

/-- **By value, the repaired `optimize()` is the first model.**  On a well-formed world whose vertices hold poses that are
    fixed points of `copy` (class `G`, closed under `⊞`: `typedLib_good_real`), for every solver behaviour `solve` (any
    function of the iteration number and of what the assembling pass reads — in particular the real one), every number of
    updates, with or without the closing pass: if `optimizeNumObj` — which re-binds the vertices of the numerically
    differentiated edges in every assembling pass — returns `w'`, then `optimizeObj` — which does not — returns a world that
    READS exactly like `w'`: same pose contents, ids, flags, gradient indices, same contents of all edge arrays.  Only object
    identities differ (`optimizeNumObj_frame` says which).  Hence every later query returns the same values after either. -/
theorem optimizeNumObj_agrees_optimizeObj (L : PoseLib P E) (hcc : ∀ p, L.cdim (L.copy p) = L.cdim p)
    (hcdim : ∀ p δ, L.cdim (L.boxplus p δ) = L.cdim p) (G : P → Prop) (hG : ∀ p, G p → L.copy p = p)
    (hGbox : ∀ p δ, G p → G (L.boxplus p δ)) (nes : List (NumEdge P E)) (eps : E) (solve : Nat → GraphView P E → Seg E)
    (ffp : Bool) (iters : Nat) (extra : Bool) (w w' : World P E) (st : List (Nat × Nat × P)) (hw : w.WF)
    (r : RefinesSt L w st) (hg : ∀ x ∈ st, G x.2.2) (h : optimizeNumObj L nes eps solve ffp iters extra w = some w') :
    ∃ w'', optimizeObj L solve ffp iters w = some w'' ∧ w''.view = w'.view := by
  unfold optimizeNumObj at h
  obtain ⟨w1, h1, h'⟩ := Option.bind_eq_some_iff.1 h
  obtain ⟨w2, h2, h3⟩ := Option.bind_eq_some_iff.1 h'
  have hw1 := fixFirst_wf ffp w w1 h1 hw
  have r1 := fixFirst_refinesSt L ffp w w1 h1 st r
  obtain ⟨b', hb', hv', hwf2, st', r', g'⟩ := optimizeIters_agree L hcc hcdim G hG hGbox nes eps (fixedIdx w1) solve iters 0
    w1 w2 w1 st hw1 hw1 rfl r1 hg h2
  refine ⟨b', by unfold optimizeObj; rw [h1]; exact hb', ?_⟩
  cases extra with
  | false => simp only [Bool.false_eq_true, if_false] at h3; cases h3; exact hv'
  | true =>
    simp only [if_true] at h3
    rw [hv']
    exact (assembleNumObj_view L hcc nes eps w2 w' st' hwf2 r' (fun x hx => hG _ (g' x hx)) h3).symm

end numopt

/-! ### the library over ℝ: only the initial SE(2) angles need to be in range -/

/-- **The library's pose classes, real arithmetic.**  On a graph of `PoseR2/R3/SE2/SE3` vertices whose SE(2) angles are
    initially in `[-π, π)` (true of every pose the library itself produces: C09), the repaired `optimize()` reads, through
    its references, as `iters` times `Model.applyDx` with `Pose.boxplus` — no further hypothesis: `⊞` re-establishes the
    range in every update (`typedLib_good_real`). -/
theorem optimizeNumObj_refines_real (nes : List (NumEdge (Pose ℝ) ℝ)) (eps : ℝ) (solve : Nat → GraphView (Pose ℝ) ℝ → Seg ℝ)
    (ffp : Bool) (iters : Nat) (extra : Bool) (w w' : World (Pose ℝ) ℝ) (st : GState ℝ) (r : RefinesSt typedLib w st)
    (hg : ∀ x ∈ st, GoodReal x.2.2) (h : optimizeNumObj typedLib nes eps solve ffp iters extra w = some w') (fixed : List Nat)
    (hfixed : fixed = fixedIndices (applyFixFirst ffp (w.vertices.map (·.fixed))) (w.vertices.map (·.gidx))) :
    ∃ dxs : List (Seg ℝ), dxs.length = iters ∧
      RefinesSt typedLib w' (dxs.foldl (fun s dx => applyDx Pose.boxplus fixed s dx.get) st) :=
  optimizeNumObj_refines typedLib typedLib_cdim_copy typedLib_cdim GoodReal typedLib_good_real.1
    (fun p δ _ => typedLib_good_real.2 p δ) nes eps solve ffp iters extra w w' st r hg h fixed hfixed

/-- … and it reads exactly like the result of the first model `optimizeObj` -/
theorem optimizeNumObj_agrees_optimizeObj_real (nes : List (NumEdge (Pose ℝ) ℝ)) (eps : ℝ)
    (solve : Nat → GraphView (Pose ℝ) ℝ → Seg ℝ) (ffp : Bool) (iters : Nat) (extra : Bool) (w w' : World (Pose ℝ) ℝ)
    (st : GState ℝ) (hw : w.WF) (r : RefinesSt typedLib w st) (hg : ∀ x ∈ st, GoodReal x.2.2)
    (h : optimizeNumObj typedLib nes eps solve ffp iters extra w = some w') :
    ∃ w'', optimizeObj typedLib solve ffp iters w = some w'' ∧ w''.view = w'.view :=
  optimizeNumObj_agrees_optimizeObj typedLib typedLib_cdim_copy typedLib_cdim GoodReal typedLib_good_real.1
    (fun p δ _ => typedLib_good_real.2 p δ) nes eps solve ffp iters extra w w' st hw r hg h

/-- the exact statement for an SE(2) vertex with an OUT-OF-RANGE angle, real arithmetic, no hypothesis on the poses: a vertex
    with the `fixed` flag ends with `copy p` (the angle wrapped into `[-π, π)`, `typedLib_copy_idem_real`) if it is touched by
    a numerically differentiated edge in at least one assembling pass, and with `p` otherwise (`COMPACT_DIMENSIONALITY > 0`
    for every library class) -/
theorem optimizeNumObj_fixed_content_real (nes : List (NumEdge (Pose ℝ) ℝ)) (eps : ℝ)
    (solve : Nat → GraphView (Pose ℝ) ℝ → Seg ℝ) (ffp : Bool) (iters : Nat) (extra : Bool) (w w' : World (Pose ℝ) ℝ)
    (hwf : VWF w) (h : optimizeNumObj typedLib nes eps solve ffp iters extra w = some w') (j : Nat) (v u : VertexO)
    (hv : w.vertices[j]? = some v) (hu : w'.vertices[j]? = some u) (hflag : v.fixed = true ∨ (ffp = true ∧ j = 0))
    (p : Pose ℝ) (hp : poseOf w.heap v.pose = some p) :
    poseOf w'.heap u.pose
      = some (if j ∈ touchedBy w.edges nes ∧ 0 < numPasses iters extra then (typedLib (E := ℝ)).copy p else p) := by
  have := optimizeNumObj_fixed_content_idem typedLib typedLib_cdim_copy typedLib_copy_idem_real nes eps solve ffp iters extra
    w w' hwf h j v u hv hu hflag p hp
  rw [this]
  have hc : 0 < (typedLib (E := ℝ)).cdim p := by cases p <;> simp [typedLib, Pose.cdim]
  simp [hc]

end GraphSlam.Props.C15.Heap
