import GraphSlam.Model.Heap

/-!
# C15 (object model) — basic facts about the heap and the object-level pose operators

`Heap.Below n h h'`: the first `n` objects of `h` are bit-identical in `h'`.  `Heap.Ext h h' := Below h.size h h'`:
`h'` is `h` plus newer objects (append-only).  Every pose operator allocates exactly one object and returns its identity.
Core Lean only (no Mathlib).
-/

namespace GraphSlam.Props.C15.Heap
open GraphSlam GraphSlam.Model GraphSlam.Model.Objects

variable {α : Type} {P E : Type}

/-! ### the heap primitives -/

@[simp] theorem size_alloc (h : Heap α) (a : α) : (h.alloc a).1.size = h.size + 1 := by
  simp [Heap.alloc, Heap.size]

@[simp] theorem alloc_snd (h : Heap α) (a : α) : (h.alloc a).2 = h.size := rfl

theorem get?_alloc (h : Heap α) (a : α) (id : ObjId) :
    (h.alloc a).1.get? id = if id = h.size then some a else h.get? id := by
  show (h.objs.push a)[id]? = if id = h.objs.size then some a else h.objs[id]?
  rw [Array.getElem?_push]

@[simp] theorem get?_alloc_self (h : Heap α) (a : α) : (h.alloc a).1.get? h.size = some a := by
  simp [get?_alloc]

@[simp] theorem size_write (h : Heap α) (i : ObjId) (a : α) : (h.write i a).size = h.size := by
  simp [Heap.write, Heap.size]

theorem get?_write (h : Heap α) (i : ObjId) (a : α) (id : ObjId) :
    (h.write i a).get? id = if i = id then (if i < h.size then some a else none) else h.get? id := by
  show (h.objs.setIfInBounds i a)[id]? = if i = id then (if i < h.objs.size then some a else none) else h.objs[id]?
  rw [Array.getElem?_setIfInBounds]

theorem get?_write_ne (h : Heap α) (i : ObjId) (a : α) (id : ObjId) (hne : i ≠ id) : (h.write i a).get? id = h.get? id := by
  simp [get?_write, hne]

theorem get?_write_self (h : Heap α) (i : ObjId) (a : α) (hi : i < h.size) : (h.write i a).get? i = some a := by
  simp [get?_write, hi]

theorem get?_eq_none (h : Heap α) (id : ObjId) (hid : h.size ≤ id) : h.get? id = none := by
  simp [Heap.get?, Heap.size] at *; exact hid

theorem lt_size_of_get? (h : Heap α) (id : ObjId) (a : α) (hg : h.get? id = some a) : id < h.size := by
  by_cases hlt : id < h.size
  · exact hlt
  · rw [get?_eq_none h id (by omega)] at hg; exact absurd hg (by simp)

/-! ### `Below` / `Ext` -/

/-- the first `n` objects of `h` are still there, bit-identical, in `h'` -/
def Below (n : Nat) (h h' : Heap α) : Prop := n ≤ h.size ∧ n ≤ h'.size ∧ ∀ id, id < n → h'.get? id = h.get? id

/-- **append-only**: `h'` is `h` with (possibly) newer objects; every object of `h` is bit-identical in `h'` -/
def Ext (h h' : Heap α) : Prop := h.size ≤ h'.size ∧ ∀ id, id < h.size → h'.get? id = h.get? id

theorem ext_iff_below (h h' : Heap α) : Ext h h' ↔ Below h.size h h' :=
  ⟨fun ⟨a, b⟩ => ⟨Nat.le_refl _, a, b⟩, fun ⟨_, a, b⟩ => ⟨a, b⟩⟩

theorem Below.refl {n : Nat} {h : Heap α} (hn : n ≤ h.size) : Below n h h := ⟨hn, hn, fun _ _ => rfl⟩

theorem Below.trans {n : Nat} {h1 h2 h3 : Heap α} (a : Below n h1 h2) (b : Below n h2 h3) : Below n h1 h3 :=
  ⟨a.1, b.2.1, fun id hid => (b.2.2 id hid).trans (a.2.2 id hid)⟩

theorem Below.mono {m n : Nat} {h h' : Heap α} (hmn : m ≤ n) (a : Below n h h') : Below m h h' :=
  ⟨Nat.le_trans hmn a.1, Nat.le_trans hmn a.2.1, fun id hid => a.2.2 id (Nat.lt_of_lt_of_le hid hmn)⟩

theorem Ext.refl (h : Heap α) : Ext h h := ⟨Nat.le_refl _, fun _ _ => rfl⟩

theorem Ext.trans {h1 h2 h3 : Heap α} (a : Ext h1 h2) (b : Ext h2 h3) : Ext h1 h3 :=
  ⟨Nat.le_trans a.1 b.1, fun id hid => (b.2 id (Nat.lt_of_lt_of_le hid a.1)).trans (a.2 id hid)⟩

theorem Ext.below {n : Nat} {h h' : Heap α} (a : Ext h h') (hn : n ≤ h.size) : Below n h h' :=
  ((ext_iff_below h h').1 a).mono hn

theorem Below.ext {n : Nat} {h0 h h' : Heap α} (a : Below n h0 h) (b : Ext h h') : Below n h0 h' :=
  a.trans (b.below a.2.1)

theorem ext_alloc (h : Heap α) (a : α) : Ext h (h.alloc a).1 :=
  ⟨by simp, fun id hid => by rw [get?_alloc]; simp [Nat.ne_of_lt hid]⟩

/-- an in-place write to an object that is not among the first `n` leaves the first `n` alone -/
theorem below_write {n : Nat} (h : Heap α) (i : ObjId) (a : α) (hn : n ≤ h.size) (hi : n ≤ i) : Below n h (h.write i a) :=
  ⟨hn, by simpa using hn, fun id hid => get?_write_ne h i a id (by omega)⟩

theorem Ext.get? {h h' : Heap α} (a : Ext h h') {id : ObjId} {x : α} (hx : h.get? id = some x) : h'.get? id = some x := by
  rw [a.2 id (lt_size_of_get? h id x hx), hx]

/-! ### `poseOf` -/

theorem poseOf_eq_some {h : Heap (Obj P E)} {id : ObjId} {p : P} : poseOf h id = some p ↔ h.get? id = some (.pose p) := by
  unfold poseOf
  split
  · rename_i q hq; simp [hq]
  · rename_i hne
    constructor
    · intro hh; exact absurd hh (by simp)
    · intro hh; exact absurd hh (hne p)

theorem poseOf_congr {h h' : Heap (Obj P E)} {id : ObjId} (hg : h'.get? id = h.get? id) : poseOf h' id = poseOf h id := by
  unfold poseOf; rw [hg]

theorem poseOf_lt {h : Heap (Obj P E)} {id : ObjId} {p : P} (hp : poseOf h id = some p) : id < h.size :=
  lt_size_of_get? h id _ (poseOf_eq_some.1 hp)

theorem Below.poseOf {n : Nat} {h h' : Heap (Obj P E)} (a : Below n h h') {id : ObjId} (hid : id < n) :
    poseOf h' id = poseOf h id := poseOf_congr (a.2.2 id hid)

theorem Ext.poseOf {h h' : Heap (Obj P E)} (a : Ext h h') {id : ObjId} (hid : id < h.size) :
    poseOf h' id = poseOf h id := poseOf_congr (a.2 id hid)

@[simp] theorem poseOf_alloc_self (h : Heap (Obj P E)) (p : P) : poseOf (h.alloc (.pose p)).1 h.size = some p := by
  rw [poseOf_eq_some]; simp

/-! ### the pose operators: one allocation each -/

/-- the shape of the result of an allocating operator: the old heap plus one object `o`, whose identity is returned -/
def IsAlloc (h : Heap (Obj P E)) (r : Heap (Obj P E) × ObjId) (o : Obj P E) : Prop := r = h.alloc o

theorem IsAlloc.ext {h : Heap (Obj P E)} {r : Heap (Obj P E) × ObjId} {o : Obj P E} (a : IsAlloc h r o) : Ext h r.1 := by
  rw [a]; exact ext_alloc h o

theorem IsAlloc.id {h : Heap (Obj P E)} {r : Heap (Obj P E) × ObjId} {o : Obj P E} (a : IsAlloc h r o) : r.2 = h.size := by
  rw [a]; rfl

theorem IsAlloc.size {h : Heap (Obj P E)} {r : Heap (Obj P E) × ObjId} {o : Obj P E} (a : IsAlloc h r o) :
    r.1.size = h.size + 1 := by
  rw [a]; simp

theorem IsAlloc.get? {h : Heap (Obj P E)} {r : Heap (Obj P E) × ObjId} {o : Obj P E} (a : IsAlloc h r o) :
    r.1.get? r.2 = some o := by
  rw [a]; simp

theorem poseCopy_spec {L : PoseLib P E} {h : Heap (Obj P E)} {p : ObjId} {r : Heap (Obj P E) × ObjId}
    (hr : poseCopy L h p = some r) : ∃ a, poseOf h p = some a ∧ IsAlloc h r (.pose (L.copy a)) := by
  unfold poseCopy at hr
  obtain ⟨a, ha, hr⟩ := Option.map_eq_some_iff.1 hr
  exact ⟨a, ha, hr.symm⟩

theorem poseInverse_spec {L : PoseLib P E} {h : Heap (Obj P E)} {p : ObjId} {r : Heap (Obj P E) × ObjId}
    (hr : poseInverse L h p = some r) : ∃ a, poseOf h p = some a ∧ IsAlloc h r (.pose (L.inverse a)) := by
  unfold poseInverse at hr
  obtain ⟨a, ha, hr⟩ := Option.map_eq_some_iff.1 hr
  exact ⟨a, ha, hr.symm⟩

theorem poseToCompact_spec {L : PoseLib P E} {h : Heap (Obj P E)} {p : ObjId} {r : Heap (Obj P E) × ObjId}
    (hr : poseToCompact L h p = some r) : ∃ a, poseOf h p = some a ∧ IsAlloc h r (.seg (L.to_compact a)) := by
  unfold poseToCompact at hr
  obtain ⟨a, ha, hr⟩ := Option.map_eq_some_iff.1 hr
  exact ⟨a, ha, hr.symm⟩

/-- `p + q` allocates the pose `a ⊕ b` (pose operand) or `a ⊞ s` (array operand) -/
theorem poseAdd_spec {L : PoseLib P E} {h : Heap (Obj P E)} {p q : ObjId} {r : Heap (Obj P E) × ObjId}
    (hr : poseAdd L h p q = some r) :
    ∃ a, poseOf h p = some a ∧
      ((∃ b c, h.get? q = some (.pose b) ∧ L.oplus a b = some c ∧ IsAlloc h r (.pose c)) ∨
       (∃ s, h.get? q = some (.seg s) ∧ IsAlloc h r (.pose (L.boxplus a s.get)))) := by
  unfold poseAdd at hr
  split at hr
  · rename_i a b ha hb
    obtain ⟨c, hc, hr⟩ := Option.map_eq_some_iff.1 hr
    exact ⟨a, ha, Or.inl ⟨b, c, hb, hc, hr.symm⟩⟩
  · rename_i a s ha hs
    exact ⟨a, ha, Or.inr ⟨s, hs, (Option.some.inj hr).symm⟩⟩
  · exact absurd hr (by simp)

theorem poseAdd_alloc {L : PoseLib P E} {h : Heap (Obj P E)} {p q : ObjId} {r : Heap (Obj P E) × ObjId}
    (hr : poseAdd L h p q = some r) : ∃ c, IsAlloc h r (.pose c) := by
  obtain ⟨a, _, h1 | h2⟩ := poseAdd_spec hr
  · obtain ⟨_, c, _, _, hc⟩ := h1; exact ⟨c, hc⟩
  · obtain ⟨s, _, hc⟩ := h2; exact ⟨_, hc⟩

theorem poseSub_spec {L : PoseLib P E} {h : Heap (Obj P E)} {p q : ObjId} {r : Heap (Obj P E) × ObjId}
    (hr : poseSub L h p q = some r) :
    ∃ a b c, poseOf h p = some a ∧ poseOf h q = some b ∧ L.ominus a b = some c ∧ IsAlloc h r (.pose c) := by
  unfold poseSub at hr
  split at hr
  · rename_i a b ha hb
    obtain ⟨c, hc, hr⟩ := Option.map_eq_some_iff.1 hr
    exact ⟨a, b, c, ha, hb, hc, hr.symm⟩
  · exact absurd hr (by simp)

/-- `normalize` rewrites object `p` (a pose) in place; size and all other objects stay -/
theorem poseNormalize_spec {L : PoseLib P E} {h h' : Heap (Obj P E)} {p : ObjId}
    (hr : poseNormalize L h p = some h') :
    ∃ a b, poseOf h p = some a ∧ L.normalize a = some b ∧ h' = h.write p (.pose b) := by
  unfold poseNormalize at hr
  obtain ⟨b, hb, hr⟩ := Option.map_eq_some_iff.1 hr
  obtain ⟨a, ha, hab⟩ := Option.bind_eq_some_iff.1 hb
  exact ⟨a, b, ha, hab, hr.symm⟩

/-! ### re-binding -/

theorem rebindList_length (vs : List VertexO) (k : Nat) (id : ObjId) : (rebindList vs k id).length = vs.length := by
  unfold rebindList; split <;> simp

theorem rebindList_getElem? (vs : List VertexO) (k : Nat) (id : ObjId) (j : Nat) :
    (rebindList vs k id)[j]? = if j = k then (vs[k]?).map (fun v => { v with pose := id }) else vs[j]? := by
  unfold rebindList
  split
  · rename_i hk
    by_cases hj : j = k
    · subst hj; simp [hk]
    · simp [hj]
  · rename_i v hk
    by_cases hj : j = k
    · subst hj
      have hlt : j < vs.length := by
        cases Nat.lt_or_ge j vs.length with
        | inl hh => exact hh
        | inr hh => rw [List.getElem?_eq_none hh] at hk; exact absurd hk (by simp)
      simp [hk, List.getElem?_set_self hlt]
    · rw [List.getElem?_set_ne (Ne.symm hj)]; simp [hj]

theorem rebindList_rebindList (vs : List VertexO) (k : Nat) (a b : ObjId) :
    rebindList (rebindList vs k a) k b = rebindList vs k b := by
  apply List.ext_getElem?
  intro j
  simp only [rebindList_getElem?]
  by_cases hj : j = k
  · simp [hj]; cases vs[k]? <;> simp
  · simp [hj]

theorem rebindList_self (vs : List VertexO) (k : Nat) (v : VertexO) (hk : vs[k]? = some v) :
    rebindList vs k v.pose = vs := by
  apply List.ext_getElem?
  intro j
  rw [rebindList_getElem?]
  by_cases hj : j = k
  · subst hj; simp [hk]
  · simp [hj]

end GraphSlam.Props.C15.Heap
