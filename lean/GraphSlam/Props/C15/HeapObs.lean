import GraphSlam.Model.HeapObs
import GraphSlam.Props.C15.HeapOptimize
import GraphSlam.Props.C15.HeapNumJac

/-!
# C15 (object model) — the observation functions of the trace harness are the model; the repaired `optimize`

`Model/HeapObs.lean` defines what the driver command `heap` runs; `Model/HeapNumOpt.lean` the repaired `optimize` for graphs
with numerically differentiated edges.  This file ties both back to `Model/Heap.lean`:

* `execR_world`        — the world component of `execR` (calls *with* their returned objects) is `exec`;
* `storedLib_eq`       — the driver's pose library (results evaluated once) is `typedLib`;
* `numJacPrefix_full`  — the last prefix of the `_calc_jacobian` loop is `numJacobianObj`;
* `optimizeNumObj_nil` — with no numerically differentiated edge the repaired `optimize` is `optimizeObj`;
* `optimizeNumObj_ext` — the frame of the repaired `optimize`, for every world: append-only heap, same edges, same ids and
                         gradient indices, flags = `applyFixFirst`.  (What is *lost* w.r.t. `optimizeObj_frame`: a fixed vertex
                         touched by a numerically differentiated edge does not keep its pose object — `numOpt_rebinds_fixed`
                         is a concrete world where it is re-bound, evaluated by the kernel.)

Core Lean only.
-/

namespace GraphSlam.Props.C15.Heap
open GraphSlam GraphSlam.Gen GraphSlam.Model GraphSlam.Model.Objects

variable {P E : Type}

/-! ## `execR` is `exec` -/

/-- **The driver's calls are the model's calls**: dropping the returned identities from `execR` gives `exec`, for every
    operation and every world. -/
theorem execR_world [ScalarF E] (L : PoseLib P E) (op : Op P E) (w : World P E) :
    (execR L op w).map (·.1) = exec L op w := by
  cases op <;> simp [execR, exec, Option.map_map, Function.comp_def]

/-! ## `storedLib` is `typedLib` -/

theorem storePose_eq [ScalarF E] (p : Pose E) : storePose p = p := by
  cases p <;> simp [storePose, stored_eq]

/-- **The driver runs the generated pose code**: `storedLib` (every result evaluated once — an optimisation of the compiled
    driver) is `typedLib`, the `PoseLib` of the generated `PoseR2/R3/SE2/SE3` definitions. -/
theorem storedLib_eq [ScalarF E] : storedLib (E := E) = typedLib := by
  have h : (storePose : Pose E → Pose E) = id := funext storePose_eq
  simp only [storedLib, h, Option.map_id, id_eq]

/-! ## prefixes of the `_calc_jacobian` loop -/

/-- **The trace of worlds the driver reads the perturbed objects from ends in the model's result**: running all `dim`
    columns from the set-up state is `numJacobianObj` (same world, and the `jacobian` object is the one allocated by the
    set-up). -/
theorem numJacPrefix_full [ScalarF E] (L : PoseLib P E) (uerr : EdgeView P E → Seg E) (w : World P E) (ei vi dim : Nat) (eps : E) :
    numJacobianObj L uerr w ei vi dim eps =
      (numJacStart L uerr w ei vi dim).bind fun s =>
        (numJacLoopObj L uerr s.e s.k dim eps s.err0 s.p0 s.J dim 0 s.w).map fun w' => (w', s.J) := by
  unfold numJacobianObj numJacStart
  cases w.edges[ei]? with
  | none => rfl
  | some e =>
    dsimp only
    cases e.verts[vi]? with
    | none => rfl
    | some k =>
      dsimp only
      cases w.vertices[k]? with
      | none => rfl
      | some v =>
        dsimp only
        cases poseCopy L (w.heap.alloc (.block ⟨(uerr (w.edgeView e)).len, dim, fun _ _ => Scalar.ofInt 0⟩)).1 v.pose with
        | none => rfl
        | some c => rfl

theorem numJacPrefix_world [ScalarF E] (L : PoseLib P E) (uerr : EdgeView P E → Seg E) (w : World P E) (ei vi dim : Nat) (eps : E) :
    numJacPrefix L uerr w ei vi dim eps dim = (numJacobianObj L uerr w ei vi dim eps).map (·.1) := by
  rw [numJacPrefix_full]
  unfold numJacPrefix
  cases numJacStart L uerr w ei vi dim with
  | none => rfl
  | some s => simp [Option.map_map, Function.comp_def]

/-! ## the repaired `optimize` -/

section numopt

theorem assembleNumObj_nil [ScalarF E] (L : PoseLib P E) (eps : E) (w : World P E) : assembleNumObj L [] eps w = some w := rfl

theorem optimizeItersNumObj_nil [ScalarF E] (L : PoseLib P E) (eps : E) (fixed : List Nat) (solve : Nat → GraphView P E → Seg E) :
    ∀ (n i : Nat) (w : World P E), optimizeItersNumObj L [] eps fixed solve n i w = optimizeItersObj L fixed solve n i w := by
  intro n
  induction n with
  | zero => intro i w; rfl
  | succ n ih =>
    intro i w
    simp only [optimizeItersNumObj, optimizeItersObj, assembleNumObj_nil, Option.bind_some]
    cases optimizeStepObj L fixed (solve i w.view) w with
    | none => rfl
    | some w1 => exact ih (i + 1) w1

/-- **The repair is conservative**: on a graph without numerically differentiated edges the repaired `optimize` is
    `optimizeObj` of `Model/Heap.lean` (whatever `extra`), so every theorem about `optimizeObj` still describes what the
    driver runs there. -/
theorem optimizeNumObj_nil [ScalarF E] (L : PoseLib P E) (eps : E) (solve : Nat → GraphView P E → Seg E) (ffp : Bool) (iters : Nat)
    (extra : Bool) (w : World P E) :
    optimizeNumObj L [] eps solve ffp iters extra w = optimizeObj L solve ffp iters w := by
  unfold optimizeNumObj optimizeObj
  cases fixFirst ffp w with
  | none => rfl
  | some w1 =>
    simp only [Option.bind_some, optimizeItersNumObj_nil, assembleNumObj_nil]
    cases optimizeItersObj L (fixedIdx w1) solve iters 0 w1 with
    | none => rfl
    | some w2 => cases extra <;> rfl

/-- what every part of `optimize` preserves: older objects, the edges, ids / flags / gradient indices of the vertices -/
structure AFrame (w w' : World P E) : Prop where
  heap : Ext w.heap w'.heap
  edges : w'.edges = w.edges
  attrs : w'.vertices.map (fun v => (v.id, v.fixed, v.gidx)) = w.vertices.map (fun v => (v.id, v.fixed, v.gidx))

theorem AFrame.refl (w : World P E) : AFrame w w := ⟨Ext.refl _, rfl, rfl⟩

theorem AFrame.trans {w1 w2 w3 : World P E} (a : AFrame w1 w2) (b : AFrame w2 w3) : AFrame w1 w3 :=
  ⟨a.heap.trans b.heap, b.edges.trans a.edges, b.attrs.trans a.attrs⟩

theorem numJacobianObj_aframe [ScalarF E] (L : PoseLib P E) (uerr : EdgeView P E → Seg E) (w w' : World P E) (ei vi dim : Nat)
    (eps : E) (J : Nat) (h : numJacobianObj L uerr w ei vi dim eps = some (w', J)) : AFrame w w' := by
  obtain ⟨h1, h2, _, _, k, _, _, h3⟩ := numJacobianObj_frame L uerr w w' ei vi dim eps J h
  exact ⟨h1, h2, h3.attrs⟩

theorem calcJacobiansNumObj_aframe [ScalarF E] (L : PoseLib P E) (uerr : EdgeView P E → Seg E) (eps : E) (w : World P E) (ei : Nat)
    (r : World P E × List Nat) (h : calcJacobiansNumObj L uerr eps w ei = some r) : AFrame w r.1 := by
  unfold calcJacobiansNumObj at h
  split at h
  · exact absurd h (by simp)
  · rename_i e he
    -- generalise the fold
    have key : ∀ (l : List Nat) (acc r : World P E × List Nat),
        l.foldlM (fun (acc : World P E × List Nat) vi =>
          match ((e.verts[vi]?).bind (acc.1.vertices[·]?)).bind fun v => poseOf acc.1.heap v.pose with
          | none => none
          | some p => (numJacobianObj L uerr acc.1 ei vi (L.cdim p) eps).map fun r => (r.1, acc.2 ++ [r.2])) acc = some r →
        AFrame acc.1 r.1 := by
      intro l
      induction l with
      | nil =>
        intro acc r h
        simp only [List.foldlM_nil] at h
        cases h
        exact AFrame.refl _
      | cons vi l ih =>
        intro acc r h
        simp only [List.foldlM_cons] at h
        obtain ⟨acc1, h1, h2⟩ := Option.bind_eq_some_iff.1 h
        split at h1
        · exact absurd h1 (by simp)
        · rename_i p hp
          obtain ⟨x, hx, hacc⟩ := Option.map_eq_some_iff.1 h1
          subst hacc
          exact (numJacobianObj_aframe L uerr acc.1 x.1 ei vi _ eps x.2 hx).trans (ih _ r h2)
    exact key _ (w, []) r h

theorem assembleNumObj_aframe [ScalarF E] (L : PoseLib P E) (nes : List (NumEdge P E)) (eps : E) :
    ∀ (w w' : World P E), assembleNumObj L nes eps w = some w' → AFrame w w' := by
  unfold assembleNumObj
  induction nes with
  | nil =>
    intro w w' h
    simp only [List.foldlM_nil] at h
    cases h
    exact AFrame.refl _
  | cons ne nes ih =>
    intro w w' h
    simp only [List.foldlM_cons] at h
    obtain ⟨w1, h1, h2⟩ := Option.bind_eq_some_iff.1 h
    obtain ⟨r, hr, hw1⟩ := Option.map_eq_some_iff.1 h1
    subst hw1
    exact (calcJacobiansNumObj_aframe L ne.uerr eps w ne.ei r hr).trans (ih _ _ h2)

theorem optimizeStepObj_aframe (L : PoseLib P E) (fixed : List Nat) (dxv : Seg E) (w w' : World P E)
    (h : optimizeStepObj L fixed dxv w = some w') : AFrame w w' := by
  have h1 : optimizeItersObj L fixed (fun _ _ => dxv) 1 0 w = some w' := by
    simp [optimizeItersObj, h]
  obtain ⟨a, b, c⟩ := optimizeItersObj_ext L fixed (fun _ _ => dxv) 1 0 w w' h1
  exact ⟨a, b, c⟩

theorem optimizeItersNumObj_aframe [ScalarF E] (L : PoseLib P E) (nes : List (NumEdge P E)) (eps : E) (fixed : List Nat)
    (solve : Nat → GraphView P E → Seg E) :
    ∀ (n i : Nat) (w w' : World P E), optimizeItersNumObj L nes eps fixed solve n i w = some w' → AFrame w w' := by
  intro n
  induction n with
  | zero =>
    intro i w w' h
    simp only [optimizeItersNumObj] at h
    cases h
    exact AFrame.refl _
  | succ n ih =>
    intro i w w' h
    simp only [optimizeItersNumObj] at h
    obtain ⟨w1, h1, h2⟩ := Option.bind_eq_some_iff.1 h
    obtain ⟨w2, h3, h4⟩ := Option.bind_eq_some_iff.1 h2
    exact ((assembleNumObj_aframe L nes eps w w1 h1).trans (optimizeStepObj_aframe L fixed _ w1 w2 h3)).trans
      (ih (i + 1) w2 w' h4)

/-- **The repaired `optimize()` is append-only on the heap, for every world** (any aliasing, any set of numerically
    differentiated edges with read-only `calc_error`, any solver behaviour, any number of iterations): no object that existed
    before the call is changed — measurements, information matrices, offsets, old pose objects, arrays the caller holds;
    the edges hold the same references; ids and gradient indices are untouched; the flags are the old ones with the first
    set when `fix_first_pose`.  (The analogue of `optimizeObj_ext`.  Not claimed, because false in the code: that a fixed
    vertex keeps its pose *object*.) -/
theorem optimizeNumObj_ext [ScalarF E] (L : PoseLib P E) (nes : List (NumEdge P E)) (eps : E) (solve : Nat → GraphView P E → Seg E)
    (ffp : Bool) (iters : Nat) (extra : Bool) (w w' : World P E)
    (h : optimizeNumObj L nes eps solve ffp iters extra w = some w') :
    Ext w.heap w'.heap ∧ w'.edges = w.edges ∧
    w'.vertices.map (fun v => (v.id, v.gidx)) = w.vertices.map (fun v => (v.id, v.gidx)) ∧
    w'.vertices.map (·.fixed) = applyFixFirst ffp (w.vertices.map (·.fixed)) := by
  unfold optimizeNumObj at h
  obtain ⟨w1, h1, h2⟩ := Option.bind_eq_some_iff.1 h
  obtain ⟨w2, h3, h4⟩ := Option.bind_eq_some_iff.1 h2
  obtain ⟨f1, f2, f3, f4, _, f6⟩ := fixFirst_spec ffp w w1 h1
  have a12 := optimizeItersNumObj_aframe L nes eps _ solve iters 0 w1 w2 h3
  have a2 : AFrame w2 w' := by
    cases extra with
    | false => simp only [Bool.false_eq_true, if_false] at h4; cases h4; exact AFrame.refl _
    | true => simp only [if_true] at h4; exact assembleNumObj_aframe L nes eps w2 w' h4
  obtain ⟨b1, b2, b3⟩ := a12.trans a2
  refine ⟨by rw [← f1]; exact b1, b2.trans f2, ?_, ?_⟩
  · have h3 := congrArg (List.map (fun t : Int × Bool × Nat => (t.1, t.2.2))) b3
    simp only [List.map_map, Function.comp_def] at h3
    rw [h3]
    apply List.ext_getElem?
    intro j
    simp only [List.getElem?_map]
    cases hv : w.vertices[j]? with
    | none =>
      have : w1.vertices[j]? = none := by rw [List.getElem?_eq_none_iff] at hv ⊢; omega
      rw [this]
    | some v =>
      obtain ⟨b, hb⟩ := f6 j v hv
      rw [hb]; rfl
  · rw [← f4]
    have h3 := congrArg (List.map (fun t : Int × Bool × Nat => t.2.1)) b3
    simpa [List.map_map, Function.comp_def] using h3

end numopt

end GraphSlam.Props.C15.Heap
