import GraphSlam.Props.C15.HeapRefine

/-!
# C15 (object model) — the update loop of `Graph.optimize` at object level

`updateLoopObj` (graph.py:495-501): for every vertex whose `gradient_index` is not in the fixed set, a slice object and a
new pose object are allocated and the vertex is re-bound to the new pose; nothing is written.  Hence (for all worlds,
aliased or not): the heap is extended, edges are untouched, a fixed vertex keeps the very same pose object, a free vertex
gets an object of its own — allocated by this call, different from the object of every other free vertex — holding
`old ⊞ dx[g : g + c]`, where `old` is what the vertex held *before the loop* (no double update through a shared object).
Core Lean only.
-/

namespace GraphSlam.Props.C15.Heap
open GraphSlam GraphSlam.Model GraphSlam.Model.Objects

variable {P E : Type}

/-- what the update loop did to vertex `j` (which was `v` before): re-bound to a new object `id` holding `p ⊞ δ` -/
def Updated (L : PoseLib P E) (s : Seg E) (w w' : World P E) (j : Nat) (v : VertexO) : Prop :=
  ∃ p id, poseOf w.heap v.pose = some p ∧ w'.vertices[j]? = some { v with pose := id } ∧
    w.heap.size ≤ id ∧ id < w'.heap.size ∧ poseOf w'.heap id = some (L.boxplus p (fun t => s.get (v.gidx + t)))

theorem updateLoopObj_spec (L : PoseLib P E) (fixed : List Nat) (dx : Nat) (s : Seg E) :
    ∀ (n i : Nat) (w w' : World P E), updateLoopObj L fixed dx n i w = some w' →
      w.heap.get? dx = some (.seg s) → (∀ v ∈ w.vertices, v.pose < w.heap.size) →
      Ext w.heap w'.heap ∧ w'.edges = w.edges ∧ w'.vertices.length = w.vertices.length ∧
      (∀ j v, w.vertices[j]? = some v →
        ((j < i ∨ i + n ≤ j ∨ v.gidx ∈ fixed) → w'.vertices[j]? = some v) ∧
        (i ≤ j → j < i + n → v.gidx ∉ fixed → Updated L s w w' j v)) ∧
      (∀ j1 j2 v1 v2 u1 u2, i ≤ j1 → j1 < j2 → j2 < i + n → w.vertices[j1]? = some v1 → w.vertices[j2]? = some v2 →
        v1.gidx ∉ fixed → v2.gidx ∉ fixed → w'.vertices[j1]? = some u1 → w'.vertices[j2]? = some u2 → u1.pose < u2.pose) := by
  intro n
  induction n with
  | zero =>
    intro i w w' h _ _
    simp only [updateLoopObj] at h
    cases h
    refine ⟨Ext.refl _, rfl, rfl, fun j v hv => ⟨fun _ => hv, fun h1 h2 => by omega⟩, ?_⟩
    intro j1 j2 _ _ _ _ h1 h2 h3; omega
  | succ n ih =>
    intro i w w' h hdx hwf
    simp only [updateLoopObj] at h
    split at h
    · -- no vertex `i`: the loop has ended
      rename_i hvi
      cases h
      have hlen : w.vertices.length ≤ i := by rw [List.getElem?_eq_none_iff] at hvi; exact hvi
      have hj : ∀ j v, w.vertices[j]? = some v → j < i := by
        intro j v hv
        have : j < w.vertices.length := by
          cases Nat.lt_or_ge j w.vertices.length with
          | inl hh => exact hh
          | inr hh => rw [List.getElem?_eq_none hh] at hv; exact absurd hv (by simp)
        omega
      refine ⟨Ext.refl _, rfl, rfl, fun j v hv => ⟨fun _ => hv, fun h1 _ => by have := hj j v hv; omega⟩, ?_⟩
      intro j1 j2 v1 _ _ _ h1 _ _ hv1; have := hj j1 v1 hv1; omega
    · rename_i vi hvi
      split at h
      · -- vertex `i` is fixed: `continue`
        rename_i hfix
        obtain ⟨g1, g2, g3, g4, g5⟩ := ih (i + 1) w w' h hdx hwf
        refine ⟨g1, g2, g3, fun j v hv => ⟨fun hc => (g4 j v hv).1 ?_, fun h1 h2 h3 => (g4 j v hv).2 ?_ (by omega) h3⟩, ?_⟩
        · rcases hc with hc | hc | hc
          · exact Or.inl (by omega)
          · exact Or.inr (Or.inl (by omega))
          · exact Or.inr (Or.inr hc)
        · cases Nat.lt_or_ge i j with
          | inl hh => exact hh
          | inr hh =>
            have : j = i := by omega
            subst this
            rw [hvi] at hv; cases hv
            exact absurd hfix h3
        · intro j1 j2 v1 v2 u1 u2 h1 h2 h3 hv1 hv2 hf1 hf2 hu1 hu2
          have : j1 ≠ i := by
            intro hh; subst hh; rw [hvi] at hv1; cases hv1; exact hf1 hfix
          exact g5 j1 j2 v1 v2 u1 u2 (by omega) h2 (by omega) hv1 hv2 hf1 hf2 hu1 hu2
      · -- vertex `i` is free: slice, `+=`
        rename_i hfree
        split at h
        · rename_i p s' hp hs'
          rw [hdx] at hs'
          have hss : s' = s := by injection hs' with hq; injection hq with hq; exact hq.symm
          subst hss
          split at h
          · exact absurd h (by simp)
          · rename_i w1 h1
            generalize hsl : (Obj.seg (⟨L.cdim p, fun t => s'.get (vi.gidx + t)⟩ : Seg E) : Obj P E) = slice at h1
            obtain ⟨v', rr, hv', hadd, hh1, hv1, he1⟩ := vertexIadd_spec h1
            simp only [alloc_snd] at hadd hh1 hv1 hv' he1
            rw [hvi] at hv'; cases hv'
            obtain ⟨cur, hcur, hcase⟩ := poseAdd_spec hadd
            have hcurp : cur = p := by
              have := posePres_alloc w.heap slice _ _ hp
              rw [hcur] at this; exact Option.some.inj this
            subst hcurp
            have hrr : IsAlloc (w.heap.alloc slice).1 rr (.pose (L.boxplus cur (fun t => s'.get (vi.gidx + t)))) := by
              rcases hcase with ⟨b, _, hq, _, _⟩ | ⟨s2, hq, hal⟩
              · rw [get?_alloc_self, ← hsl] at hq; exact absurd hq (by simp)
              · rw [get?_alloc_self, ← hsl] at hq
                have hs2 : s2 = ⟨L.cdim cur, fun t => s'.get (vi.gidx + t)⟩ := by
                  injection hq with hq; injection hq with hq; exact hq.symm
                rw [hs2] at hal; exact hal
            have hsz1 : w1.heap.size = w.heap.size + 2 := by rw [hh1, hrr.size, size_alloc]
            have hid : rr.2 = w.heap.size + 1 := by rw [hrr.id, size_alloc]
            have e1 : Ext w.heap w1.heap := by rw [hh1]; exact (ext_alloc _ _).trans hrr.ext
            have hdx1 : w1.heap.get? dx = some (.seg s') := e1.get? hdx
            have hv1j : ∀ j, w1.vertices[j]? = if j = i then some { vi with pose := rr.2 } else w.vertices[j]? := by
              intro j; rw [hv1, rebindList_getElem?]
              by_cases hj : j = i
              · simp [hj, hvi]
              · simp [hj]
            have hwf1 : ∀ v ∈ w1.vertices, v.pose < w1.heap.size := by
              intro v hv
              obtain ⟨j, hj⟩ := List.getElem?_of_mem hv
              rw [hv1j] at hj
              by_cases hji : j = i
              · simp only [hji, if_true] at hj; cases hj; simp only; omega
              · simp only [hji, if_false] at hj
                have := hwf v (List.mem_of_getElem? hj); omega
            have hpose1 : poseOf w1.heap rr.2 = some (L.boxplus cur (fun t => s'.get (vi.gidx + t))) := by
              rw [hh1, poseOf_eq_some]; exact hrr.get?
            obtain ⟨g1, g2, g3, g4, g5⟩ := ih (i + 1) w1 w' h hdx1 hwf1
            have hi' : w'.vertices[i]? = some { vi with pose := rr.2 } :=
              (g4 i _ (by rw [hv1j]; simp)).1 (Or.inl (by omega))
            refine ⟨e1.trans g1, g2.trans he1, ?_, ?_, ?_⟩
            · rw [g3, hv1, rebindList_length]
            · intro j v hv
              by_cases hji : j = i
              · subst hji
                rw [hvi] at hv; cases hv
                refine ⟨fun hc => ?_, fun _ _ _ => ?_⟩
                · rcases hc with hc | hc | hc
                  · omega
                  · omega
                  · exact absurd hc hfree
                · exact ⟨cur, rr.2, hp, hi', by omega, by have := g1.1; omega, posePres_of_ext g1 _ _ hpose1⟩
              · have hv1' : w1.vertices[j]? = some v := by rw [hv1j]; simp [hji, hv]
                refine ⟨fun hc => (g4 j v hv1').1 ?_, fun h1 h2 h3 => ?_⟩
                · rcases hc with hc | hc | hc
                  · exact Or.inl (by omega)
                  · exact Or.inr (Or.inl (by omega))
                  · exact Or.inr (Or.inr hc)
                · obtain ⟨q, id, hq, hb, hc, hd, he⟩ := (g4 j v hv1').2 (by omega) (by omega) h3
                  refine ⟨q, id, ?_, hb, by omega, hd, he⟩
                  rw [← e1.poseOf (hwf v (List.mem_of_getElem? hv))]; exact hq
            · intro j1 j2 v1 v2 u1 u2 h1' h2' h3' hv1' hv2' hf1 hf2 hu1 hu2
              have hj2 : j2 ≠ i := by omega
              have hv2'' : w1.vertices[j2]? = some v2 := by rw [hv1j]; simp [hj2, hv2']
              by_cases hj1 : j1 = i
              · subst hj1
                rw [hi'] at hu1; cases hu1
                obtain ⟨q, id, _, hb, hc, _, _⟩ := (g4 j2 v2 hv2'').2 (by omega) (by omega) hf2
                rw [hb] at hu2; cases hu2
                simp only; omega
              · have hv1'' : w1.vertices[j1]? = some v1 := by rw [hv1j]; simp [hj1, hv1']
                exact g5 j1 j2 v1 v2 u1 u2 (by omega) h2' (by omega) hv1'' hv2'' hf1 hf2 hu1 hu2
        · exact absurd h (by simp)

/-- every vertex reference is a live object -/
def VWF (w : World P E) : Prop := ∀ v ∈ w.vertices, v.pose < w.heap.size

theorem lt_length_of_getElem? {α : Type} {l : List α} {j : Nat} {a : α} (h : l[j]? = some a) : j < l.length := by
  cases Nat.lt_or_ge j l.length with
  | inl hh => exact hh
  | inr hh => rw [List.getElem?_eq_none hh] at h; exact absurd h (by simp)

/-- **One iteration** (`dx = spsolve(…)`, then the update loop): the heap is extended; edges untouched; a vertex whose
    `gradient_index` is in the fixed set keeps its record (same pose object); every other vertex is re-bound to a new
    object holding `old ⊞ dx[g : g + c]`; the new objects of different vertices are different objects. -/
theorem optimizeStepObj_spec (L : PoseLib P E) (fixed : List Nat) (dxv : Seg E) (w w' : World P E) (hwf : VWF w)
    (h : optimizeStepObj L fixed dxv w = some w') :
    Ext w.heap w'.heap ∧ w'.edges = w.edges ∧ w'.vertices.length = w.vertices.length ∧
    (∀ j v, w.vertices[j]? = some v →
      (v.gidx ∈ fixed → w'.vertices[j]? = some v) ∧ (v.gidx ∉ fixed → Updated L dxv w w' j v)) ∧
    (∀ (j1 j2 : Nat) (v1 v2 u1 u2 : VertexO), j1 ≠ j2 → w.vertices[j1]? = some v1 → w.vertices[j2]? = some v2 →
        v1.gidx ∉ fixed → v2.gidx ∉ fixed → w'.vertices[j1]? = some u1 → w'.vertices[j2]? = some u2 → u1.pose ≠ u2.pose) := by
  unfold optimizeStepObj at h
  dsimp only at h
  have e0 : Ext w.heap (w.heap.alloc (.seg dxv)).1 := ext_alloc _ _
  have hwf0 : ∀ v ∈ w.vertices, v.pose < (w.heap.alloc (Obj.seg dxv : Obj P E)).1.size := by
    intro v hv; have := hwf v hv; rw [size_alloc]; omega
  obtain ⟨g1, g2, g3, g4, g5⟩ := updateLoopObj_spec L fixed w.heap.size dxv w.vertices.length 0
    ⟨(w.heap.alloc (.seg dxv)).1, w.vertices, w.edges⟩ w' h (get?_alloc_self _ _) hwf0
  refine ⟨e0.trans g1, g2, g3, fun j v hv => ⟨fun hf => (g4 j v hv).1 (Or.inr (Or.inr hf)), fun hf => ?_⟩, ?_⟩
  · obtain ⟨p, id, hp, hb, hc, hd, he⟩ := (g4 j v hv).2 (Nat.zero_le _) (by have := lt_length_of_getElem? hv; omega) hf
    refine ⟨p, id, ?_, hb, ?_, hd, he⟩
    · rw [← e0.poseOf (hwf v (List.mem_of_getElem? hv))]; exact hp
    · have := e0.1; simp only at hc; omega
  · intro j1 j2 v1 v2 u1 u2 hne hv1 hv2 hf1 hf2 hu1 hu2
    have l1 := lt_length_of_getElem? hv1
    have l2 := lt_length_of_getElem? hv2
    cases Nat.lt_or_ge j1 j2 with
    | inl hlt =>
      have := g5 j1 j2 v1 v2 u1 u2 (Nat.zero_le _) hlt (by omega) hv1 hv2 hf1 hf2 hu1 hu2
      omega
    | inr hge =>
      have := g5 j2 j1 v2 v1 u2 u1 (Nat.zero_le _) (by omega) (by omega) hv2 hv1 hf2 hf1 hu2 hu1
      omega

theorem optimizeStepObj_vwf (L : PoseLib P E) (fixed : List Nat) (dxv : Seg E) (w w' : World P E) (hwf : VWF w)
    (h : optimizeStepObj L fixed dxv w = some w') : VWF w' := by
  obtain ⟨g1, _, _, g4, _⟩ := optimizeStepObj_spec L fixed dxv w w' hwf h
  intro u hu
  obtain ⟨j, hj⟩ := List.getElem?_of_mem hu
  cases hv : w.vertices[j]? with
  | none =>
    have := lt_length_of_getElem? hj
    rw [List.getElem?_eq_none_iff] at hv
    obtain ⟨_, _, g3, _⟩ := optimizeStepObj_spec L fixed dxv w w' hwf h
    omega
  | some v =>
    by_cases hf : v.gidx ∈ fixed
    · rw [(g4 j v hv).1 hf] at hj; cases hj
      have := hwf u (List.mem_of_getElem? hv); have := g1.1; omega
    · obtain ⟨p, id, _, hb, _, hd, _⟩ := (g4 j v hv).2 hf
      rw [hb] at hj; cases hj; exact hd

/-! ### the aliasing case -/

/-- **No double update through a shared object.**  Two free vertices that held ONE pose object `o` (entries `c`) before the
    iteration hold two different new objects after it, with entries `c ⊞ dx[g₁ : …]` and `c ⊞ dx[g₂ : …]` — each updated
    once, from the common old value — and `o` itself still has the entries `c` (so an edge `estimate`, or a caller, that
    also refers to `o` sees no change).  An in-place `+=` would have given both `(c ⊞ δ₁) ⊞ δ₂` and changed `o`. -/
theorem optimizeStepObj_shared (L : PoseLib P E) (fixed : List Nat) (dxv : Seg E) (w w' : World P E) (hwf : VWF w)
    (h : optimizeStepObj L fixed dxv w = some w') (j1 j2 : Nat) (v1 v2 : VertexO) (c : P) (hne : j1 ≠ j2)
    (hv1 : w.vertices[j1]? = some v1) (hv2 : w.vertices[j2]? = some v2) (hshare : v1.pose = v2.pose)
    (hc : poseOf w.heap v1.pose = some c) (hf1 : v1.gidx ∉ fixed) (hf2 : v2.gidx ∉ fixed) :
    ∃ id1 id2, w'.vertices[j1]? = some { v1 with pose := id1 } ∧ w'.vertices[j2]? = some { v2 with pose := id2 } ∧
      id1 ≠ id2 ∧ id1 ≠ v1.pose ∧ id2 ≠ v1.pose ∧
      poseOf w'.heap id1 = some (L.boxplus c (fun t => dxv.get (v1.gidx + t))) ∧
      poseOf w'.heap id2 = some (L.boxplus c (fun t => dxv.get (v2.gidx + t))) ∧
      poseOf w'.heap v1.pose = some c := by
  obtain ⟨g1, _, _, g4, g5⟩ := optimizeStepObj_spec L fixed dxv w w' hwf h
  obtain ⟨p1, id1, hp1, hb1, hc1, _, he1⟩ := (g4 j1 v1 hv1).2 hf1
  obtain ⟨p2, id2, hp2, hb2, hc2, _, he2⟩ := (g4 j2 v2 hv2).2 hf2
  rw [hc] at hp1; cases hp1
  rw [← hshare, hc] at hp2; cases hp2
  have hlt := poseOf_lt hc
  refine ⟨id1, id2, hb1, hb2, ?_, by omega, by omega, he1, he2, ?_⟩
  · have := g5 j1 j2 v1 v2 _ _ hne hv1 hv2 hf1 hf2 hb1 hb2
    simpa using this
  · rw [g1.poseOf hlt]; exact hc

/-! ### refinement: one iteration is `Model.applyDx` -/

/-- the optimiser state of the value-semantics models read off the world: per vertex
    `(gradient_index, COMPACT_DIMENSIONALITY of the pose object, entries of the pose object)` -/
def RefinesSt (L : PoseLib P E) (w : World P E) (st : List (Nat × Nat × P)) : Prop :=
  w.vertices.map (fun v => (poseOf w.heap v.pose).map fun p => (v.gidx, L.cdim p, p)) = st.map some

theorem RefinesSt.getElem? {L : PoseLib P E} {w : World P E} {st : List (Nat × Nat × P)} (r : RefinesSt L w st) (j : Nat) :
    (w.vertices[j]?).map (fun v => (poseOf w.heap v.pose).map fun p => (v.gidx, L.cdim p, p)) = (st[j]?).map some := by
  have := congrArg (fun l => l[j]?) r
  simpa [List.getElem?_map] using this

theorem RefinesSt.vertex {L : PoseLib P E} {w : World P E} {st : List (Nat × Nat × P)} (r : RefinesSt L w st) {j : Nat}
    {v : VertexO} (hv : w.vertices[j]? = some v) :
    ∃ p, poseOf w.heap v.pose = some p ∧ st[j]? = some (v.gidx, L.cdim p, p) := by
  have := r.getElem? j
  rw [hv] at this
  cases hs : st[j]? with
  | none => rw [hs] at this; exact absurd this (by simp)
  | some x =>
    rw [hs] at this
    simp only [Option.map_some, Option.some.injEq] at this
    cases hp : poseOf w.heap v.pose with
    | none => rw [hp] at this; exact absurd this (by simp)
    | some p => rw [hp] at this; exact ⟨p, rfl, by simpa using this.symm⟩

theorem RefinesSt.vwf {L : PoseLib P E} {w : World P E} {st : List (Nat × Nat × P)} (r : RefinesSt L w st) : VWF w := by
  intro v hv
  obtain ⟨j, hj⟩ := List.getElem?_of_mem hv
  obtain ⟨p, hp, _⟩ := r.vertex hj
  exact poseOf_lt hp

theorem RefinesSt.refines {L : PoseLib P E} {w : World P E} {st : List (Nat × Nat × P)} (r : RefinesSt L w st) :
    Refines w (st.map (·.2.2)) := by
  unfold Refines World.poses
  apply List.ext_getElem?
  intro j
  simp only [List.getElem?_map]
  cases hv : w.vertices[j]? with
  | none =>
    have := r.getElem? j; rw [hv] at this
    cases hs : st[j]? with
    | none => rfl
    | some x => rw [hs] at this; exact absurd this (by simp)
  | some v =>
    obtain ⟨p, hp, hs⟩ := r.vertex hv
    simp [hp, hs]

/-- **Refinement (update loop).**  Reading the world through its references commutes with one iteration: the object-level
    update loop (re-binding) is `Model.applyDx` (value semantics) with the same `⊞`, fixed set and increment — for every
    world, aliased or not.  (`hcdim`: `⊞` returns a pose of the same class, so `COMPACT_DIMENSIONALITY`, which the model
    stores and the code re-reads from the object, is the same.) -/
theorem optimizeStepObj_refines (L : PoseLib P E) (fixed : List Nat) (dxv : Seg E) (w w' : World P E)
    (st : List (Nat × Nat × P)) (hcdim : ∀ p δ, L.cdim (L.boxplus p δ) = L.cdim p) (r : RefinesSt L w st)
    (h : optimizeStepObj L fixed dxv w = some w') :
    RefinesSt L w' (applyDx L.boxplus fixed st dxv.get) := by
  obtain ⟨g1, _, g3, g4, _⟩ := optimizeStepObj_spec L fixed dxv w w' r.vwf h
  unfold RefinesSt
  apply List.ext_getElem?
  intro j
  simp only [List.getElem?_map, applyDx]
  cases hv : w.vertices[j]? with
  | none =>
    have hn : w'.vertices[j]? = none := by
      rw [List.getElem?_eq_none_iff] at hv ⊢; omega
    have := r.getElem? j; rw [hv] at this
    cases hs : st[j]? with
    | none => rw [hn]; rfl
    | some x => rw [hs] at this; exact absurd this (by simp)
  | some v =>
    obtain ⟨p, hp, hs⟩ := r.vertex hv
    rw [hs]
    by_cases hf : v.gidx ∈ fixed
    · rw [(g4 j v hv).1 hf]
      have : poseOf w'.heap v.pose = some p := by rw [g1.poseOf (poseOf_lt hp)]; exact hp
      simp [this, hf]
    · obtain ⟨p', id, hp', hb, _, _, he⟩ := (g4 j v hv).2 hf
      rw [hp] at hp'; cases hp'
      rw [hb]
      simp [he, hf, hcdim]

/-! ### any number of iterations -/

theorem attrs_of_pointwise {a b : List VertexO} (hl : b.length = a.length)
    (hp : ∀ (j : Nat) (v : VertexO), a[j]? = some v → ∃ id, b[j]? = some { v with pose := id }) :
    b.map (fun v => (v.id, v.fixed, v.gidx)) = a.map (fun v => (v.id, v.fixed, v.gidx)) := by
  apply List.ext_getElem?
  intro j
  simp only [List.getElem?_map]
  cases hv : a[j]? with
  | none =>
    have : b[j]? = none := by rw [List.getElem?_eq_none_iff] at hv ⊢; omega
    rw [this]
  | some v =>
    obtain ⟨id, hid⟩ := hp j v hv
    rw [hid]; rfl

/-- **`iters` iterations**, any solver behaviour: the heap is extended, edges untouched, ids / flags / gradient indices
    untouched, a vertex whose `gradient_index` is fixed keeps the very same pose object, every other vertex ends up
    (when at least one iteration ran) with an object allocated by the call, different vertices with different objects. -/
theorem optimizeItersObj_spec (L : PoseLib P E) (fixed : List Nat) (solve : Nat → GraphView P E → Seg E) :
    ∀ (n i : Nat) (w w' : World P E), optimizeItersObj L fixed solve n i w = some w' → VWF w →
      Ext w.heap w'.heap ∧ w'.edges = w.edges ∧ VWF w' ∧ w'.vertices.length = w.vertices.length ∧
      (∀ (j : Nat) (v : VertexO), w.vertices[j]? = some v →
        (v.gidx ∈ fixed → w'.vertices[j]? = some v) ∧
        (v.gidx ∉ fixed → ∃ id, w'.vertices[j]? = some { v with pose := id } ∧
          (0 < n → w.heap.size ≤ id) ∧ (n = 0 → id = v.pose))) ∧
      (0 < n → ∀ (j1 j2 : Nat) (v1 v2 u1 u2 : VertexO), j1 ≠ j2 → w.vertices[j1]? = some v1 →
        w.vertices[j2]? = some v2 → v1.gidx ∉ fixed → v2.gidx ∉ fixed → w'.vertices[j1]? = some u1 →
        w'.vertices[j2]? = some u2 → u1.pose ≠ u2.pose) := by
  intro n
  induction n with
  | zero =>
    intro i w w' h hwf
    simp only [optimizeItersObj] at h
    cases h
    exact ⟨Ext.refl _, rfl, hwf, rfl, fun j v hv => ⟨fun _ => hv, fun _ => ⟨v.pose, hv, fun hh => by omega, fun _ => rfl⟩⟩,
      fun hh => by omega⟩
  | succ n ih =>
    intro i w w' h hwf
    simp only [optimizeItersObj] at h
    obtain ⟨w1, h1, h2⟩ := Option.bind_eq_some_iff.1 h
    obtain ⟨a1, a2, a3, a4, a5⟩ := optimizeStepObj_spec L fixed _ w w1 hwf h1
    have hwf1 := optimizeStepObj_vwf L fixed _ w w1 hwf h1
    obtain ⟨b1, b2, b3, b4, b5, b6⟩ := ih (i + 1) w1 w' h2 hwf1
    have key : ∀ (j : Nat) (v : VertexO), w.vertices[j]? = some v → v.gidx ∉ fixed →
        ∃ id1 id, w1.vertices[j]? = some { v with pose := id1 } ∧ w.heap.size ≤ id1 ∧
          w'.vertices[j]? = some { v with pose := id } ∧ w.heap.size ≤ id := by
      intro j v hv hf
      obtain ⟨p, id1, _, hb, hc, _, _⟩ := (a4 j v hv).2 hf
      obtain ⟨id, hid, hpos, hzero⟩ := (b5 j _ hb).2 hf
      refine ⟨id1, id, hb, hc, hid, ?_⟩
      cases Nat.eq_zero_or_pos n with
      | inl hz => have := hzero hz; simp only at this; omega
      | inr hp => have := hpos hp; have := a1.1; omega
    refine ⟨a1.trans b1, b2.trans a2, b3, b4.trans a3, fun j v hv => ⟨fun hf => ?_, fun hf => ?_⟩, fun _ => ?_⟩
    · exact (b5 j v ((a4 j v hv).1 hf)).1 hf
    · obtain ⟨_, id, _, _, hid, hle⟩ := key j v hv hf
      exact ⟨id, hid, fun _ => hle, fun hh => by omega⟩
    · intro j1 j2 v1 v2 u1 u2 hne hv1 hv2 hf1 hf2 hu1 hu2
      obtain ⟨i1, _, hb1, _, _, _⟩ := key j1 v1 hv1 hf1
      obtain ⟨i2, _, hb2, _, _, _⟩ := key j2 v2 hv2 hf2
      cases Nat.eq_zero_or_pos n with
      | inl hz =>
        subst hz
        simp only [optimizeItersObj] at h2
        cases h2
        exact a5 j1 j2 v1 v2 u1 u2 hne hv1 hv2 hf1 hf2 hu1 hu2
      | inr hp =>
        exact b6 hp j1 j2 _ _ u1 u2 hne hb1 hb2 hf1 hf2 hu1 hu2

/-- … and the contents are those of the value-semantics model: `iters` times `Model.applyDx`, with the increments the
    solver returned -/
theorem optimizeItersObj_refines (L : PoseLib P E) (fixed : List Nat) (solve : Nat → GraphView P E → Seg E)
    (hcdim : ∀ p δ, L.cdim (L.boxplus p δ) = L.cdim p) :
    ∀ (n i : Nat) (w w' : World P E) (st : List (Nat × Nat × P)), RefinesSt L w st →
      optimizeItersObj L fixed solve n i w = some w' →
      ∃ dxs : List (Seg E), dxs.length = n ∧
        RefinesSt L w' (dxs.foldl (fun s dx => applyDx L.boxplus fixed s dx.get) st) := by
  intro n
  induction n with
  | zero =>
    intro i w w' st r h
    simp only [optimizeItersObj] at h
    cases h
    exact ⟨[], rfl, r⟩
  | succ n ih =>
    intro i w w' st r h
    simp only [optimizeItersObj] at h
    obtain ⟨w1, h1, h2⟩ := Option.bind_eq_some_iff.1 h
    have r1 := optimizeStepObj_refines L fixed _ w w1 st hcdim r h1
    obtain ⟨dxs, hl, r'⟩ := ih (i + 1) w1 w' _ r1 h2
    exact ⟨solve i w.view :: dxs, by simp [hl], r'⟩

/-! ### the whole call -/

theorem fixedIdx_eq (w : World P E) :
    fixedIdx w = fixedIndices (w.vertices.map (·.fixed)) (w.vertices.map (·.gidx)) := by
  unfold fixedIdx fixedIndices
  generalize w.vertices = l
  induction l with
  | nil => rfl
  | cons v l ih =>
    cases hf : v.fixed <;> simp [hf, ih]

theorem fixFirst_spec (ffp : Bool) (w w1 : World P E) (h : fixFirst ffp w = some w1) :
    w1.heap = w.heap ∧ w1.edges = w.edges ∧ w1.vertices.length = w.vertices.length ∧
    w1.vertices.map (·.fixed) = applyFixFirst ffp (w.vertices.map (·.fixed)) ∧
    w1.vertices.map (·.gidx) = w.vertices.map (·.gidx) ∧
    ∀ (j : Nat) (v : VertexO), w.vertices[j]? = some v → ∃ b, w1.vertices[j]? = some { v with fixed := b } := by
  unfold fixFirst at h
  cases ffp with
  | false =>
    simp only [Bool.false_eq_true, if_false] at h
    cases h
    exact ⟨rfl, rfl, rfl, by simp [applyFixFirst], rfl, fun j v hv => ⟨v.fixed, hv⟩⟩
  | true =>
    simp only [if_true] at h
    cases hvs : w.vertices with
    | nil => rw [hvs] at h; exact absurd h (by simp)
    | cons v0 vs =>
      rw [hvs] at h
      cases h
      refine ⟨rfl, rfl, by simp, by simp [applyFixFirst], by simp, fun j v hv => ?_⟩
      cases j with
      | zero => simp only [List.getElem?_cons_zero] at hv ⊢; cases hv; exact ⟨true, rfl⟩
      | succ j => simp only [List.getElem?_cons_succ] at hv ⊢; exact ⟨v.fixed, hv⟩

/-- **`optimize()` changes nothing but `pose` references of free vertices (and the first `fixed` flag when asked).**
    For every world (aliased or not), every solver behaviour and every number of iterations:
    * every object that existed before the call — measurements, information matrices, offsets, the old pose objects, any
      array the caller still holds — is bit-identical after it (`Ext`);
    * the edges hold the same references; ids and gradient indices are the same; the `fixed` flags are the old ones with
      the first set when `fix_first_pose`;
    * a vertex whose gradient index is in the fixed set (graph.py:442) is bound to the very same pose object;
    * if at least one iteration ran, every other vertex is bound to an object allocated during the call, and two
      different such vertices to two different objects. -/
theorem optimizeObj_frame (L : PoseLib P E) (solve : Nat → GraphView P E → Seg E) (ffp : Bool) (iters : Nat)
    (w w' : World P E) (hwf : VWF w) (h : optimizeObj L solve ffp iters w = some w')
    (fixed : List Nat) (hfixed : fixed = fixedIndices (applyFixFirst ffp (w.vertices.map (·.fixed))) (w.vertices.map (·.gidx))) :
    Ext w.heap w'.heap ∧ w'.edges = w.edges ∧ w'.vertices.length = w.vertices.length ∧
    w'.vertices.map (·.fixed) = applyFixFirst ffp (w.vertices.map (·.fixed)) ∧
    (∀ (j : Nat) (v : VertexO), w.vertices[j]? = some v → ∃ u : VertexO, w'.vertices[j]? = some u ∧ u.id = v.id ∧ u.gidx = v.gidx ∧
      (v.gidx ∈ fixed → u.pose = v.pose) ∧ (v.gidx ∉ fixed → 0 < iters → w.heap.size ≤ u.pose) ∧
      (iters = 0 → u.pose = v.pose)) ∧
    (0 < iters → ∀ (j1 j2 : Nat) (v1 v2 u1 u2 : VertexO), j1 ≠ j2 → w.vertices[j1]? = some v1 →
      w.vertices[j2]? = some v2 → v1.gidx ∉ fixed → v2.gidx ∉ fixed → w'.vertices[j1]? = some u1 →
      w'.vertices[j2]? = some u2 → u1.pose ≠ u2.pose) := by
  unfold optimizeObj at h
  obtain ⟨w1, h1, h2⟩ := Option.bind_eq_some_iff.1 h
  obtain ⟨f1, f2, f3, f4, f5, f6⟩ := fixFirst_spec ffp w w1 h1
  have hfix1 : fixedIdx w1 = fixed := by rw [fixedIdx_eq, f4, f5, hfixed]
  rw [hfix1] at h2
  have hwf1 : VWF w1 := by
    intro u hu
    obtain ⟨j, hj⟩ := List.getElem?_of_mem hu
    cases hv : w.vertices[j]? with
    | none =>
      have := lt_length_of_getElem? hj
      rw [List.getElem?_eq_none_iff] at hv; omega
    | some v =>
      obtain ⟨b, hb⟩ := f6 j v hv
      rw [hb] at hj; cases hj
      rw [f1]; exact hwf v (List.mem_of_getElem? hv)
  obtain ⟨b1, b2, _, b4, b5, b6⟩ := optimizeItersObj_spec L fixed solve iters 0 w1 w' h2 hwf1
  have hattr : w'.vertices.map (fun v => (v.id, v.fixed, v.gidx)) = w1.vertices.map (fun v => (v.id, v.fixed, v.gidx)) :=
    attrs_of_pointwise b4 (fun j v hv => by
      by_cases hf : v.gidx ∈ fixed
      · exact ⟨v.pose, (b5 j v hv).1 hf⟩
      · obtain ⟨id, hid, _⟩ := (b5 j v hv).2 hf; exact ⟨id, hid⟩)
  refine ⟨by rw [← f1]; exact b1, b2.trans f2, b4.trans f3, ?_, fun j v hv => ?_, fun hpos => ?_⟩
  · rw [← f4]
    have := congrArg (List.map (fun t : Int × Bool × Nat => t.2.1)) hattr
    simpa [List.map_map, Function.comp_def] using this
  · obtain ⟨b, hb⟩ := f6 j v hv
    by_cases hf : v.gidx ∈ fixed
    · exact ⟨_, (b5 j _ hb).1 hf, rfl, rfl, fun _ => rfl, fun hh => absurd hf hh, fun _ => rfl⟩
    · obtain ⟨id, hid, hpos, hzero⟩ := (b5 j _ hb).2 hf
      refine ⟨_, hid, rfl, rfl, fun hh => absurd hh hf, fun _ hp => ?_, fun hz => ?_⟩
      · have := hpos hp; rw [f1] at this; exact this
      · exact hzero hz
  · intro j1 j2 v1 v2 u1 u2 hne hv1 hv2 hf1 hf2 hu1 hu2
    obtain ⟨c1, hc1⟩ := f6 j1 v1 hv1
    obtain ⟨c2, hc2⟩ := f6 j2 v2 hv2
    exact b6 hpos j1 j2 _ _ u1 u2 hne hc1 hc2 hf1 hf2 hu1 hu2

/-! ### append-only without any assumption on the world (dangling references included) -/

theorem updateLoopObj_ext (L : PoseLib P E) (fixed : List Nat) (dx : Nat) :
    ∀ (n i : Nat) (w w' : World P E), updateLoopObj L fixed dx n i w = some w' →
      Ext w.heap w'.heap ∧ w'.edges = w.edges ∧
      w'.vertices.map (fun v => (v.id, v.fixed, v.gidx)) = w.vertices.map (fun v => (v.id, v.fixed, v.gidx)) := by
  intro n
  induction n with
  | zero =>
    intro i w w' h
    simp only [updateLoopObj] at h
    cases h
    exact ⟨Ext.refl _, rfl, rfl⟩
  | succ n ih =>
    intro i w w' h
    simp only [updateLoopObj] at h
    split at h
    · cases h; exact ⟨Ext.refl _, rfl, rfl⟩
    · split at h
      · exact ih (i + 1) w w' h
      · split at h
        · split at h
          · exact absurd h (by simp)
          · rename_i w1 h1
            obtain ⟨v, c, _, hh1, hv1, he1⟩ := vertexIadd_frame h1
            obtain ⟨g1, g2, g3⟩ := ih (i + 1) w1 w' h
            refine ⟨?_, g2.trans he1, ?_⟩
            · refine Ext.trans ?_ g1
              rw [hh1]; exact (ext_alloc _ _).trans (ext_alloc _ _)
            · rw [g3, hv1]; exact (Rebound.step i _ _).attrs
        · exact absurd h (by simp)

theorem optimizeItersObj_ext (L : PoseLib P E) (fixed : List Nat) (solve : Nat → GraphView P E → Seg E) :
    ∀ (n i : Nat) (w w' : World P E), optimizeItersObj L fixed solve n i w = some w' →
      Ext w.heap w'.heap ∧ w'.edges = w.edges ∧
      w'.vertices.map (fun v => (v.id, v.fixed, v.gidx)) = w.vertices.map (fun v => (v.id, v.fixed, v.gidx)) := by
  intro n
  induction n with
  | zero =>
    intro i w w' h
    simp only [optimizeItersObj] at h
    cases h
    exact ⟨Ext.refl _, rfl, rfl⟩
  | succ n ih =>
    intro i w w' h
    simp only [optimizeItersObj] at h
    obtain ⟨w1, h1, h2⟩ := Option.bind_eq_some_iff.1 h
    unfold optimizeStepObj at h1
    obtain ⟨a1, a2, a3⟩ := updateLoopObj_ext L fixed _ _ _ _ _ h1
    obtain ⟨b1, b2, b3⟩ := ih (i + 1) w1 w' h2
    exact ⟨((ext_alloc _ _).trans a1).trans b1, b2.trans a2, b3.trans a3⟩

/-- **`optimize()` is append-only on the heap, for every world**: no object that existed before the call is changed; the
    edges hold the same references; ids and gradient indices are untouched; the flags are the old ones with the first set
    when `fix_first_pose` -/
theorem optimizeObj_ext (L : PoseLib P E) (solve : Nat → GraphView P E → Seg E) (ffp : Bool) (iters : Nat)
    (w w' : World P E) (h : optimizeObj L solve ffp iters w = some w') :
    Ext w.heap w'.heap ∧ w'.edges = w.edges ∧
    w'.vertices.map (fun v => (v.id, v.gidx)) = w.vertices.map (fun v => (v.id, v.gidx)) ∧
    w'.vertices.map (·.fixed) = applyFixFirst ffp (w.vertices.map (·.fixed)) := by
  unfold optimizeObj at h
  obtain ⟨w1, h1, h2⟩ := Option.bind_eq_some_iff.1 h
  obtain ⟨f1, f2, f3, f4, _, f6⟩ := fixFirst_spec ffp w w1 h1
  obtain ⟨b1, b2, b3⟩ := optimizeItersObj_ext L _ solve iters 0 w1 w' h2
  refine ⟨by rw [← f1]; exact b1, b2.trans f2, ?_, ?_⟩
  · have h3 := congrArg (List.map (fun t : Int × Bool × Nat => (t.1, t.2.2))) b3
    simp only [List.map_map, Function.comp_def] at h3
    rw [h3]
    apply List.ext_getElem?
    intro j
    simp only [List.getElem?_map]
    cases hv : w.vertices[j]? with
    | none =>
      have : w1.vertices[j]? = none := by rw [List.getElem?_eq_none_iff] at hv ⊢; omega
      rw [this]
    | some v =>
      obtain ⟨b, hb⟩ := f6 j v hv
      rw [hb]; rfl
  · rw [← f4]
    have h3 := congrArg (List.map (fun t : Int × Bool × Nat => t.2.1)) b3
    simpa [List.map_map, Function.comp_def] using h3

end GraphSlam.Props.C15.Heap
