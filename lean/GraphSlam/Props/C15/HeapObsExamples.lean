import GraphSlam.Props.C15.HeapObs
import GraphSlam.Props.C15.HeapExamples

/-!
# C15 (object model) — the observation functions and the repaired `optimize` on a concrete aliased world (kernel-evaluated)

The toy world of `HeapExamples.lean` (two vertices and the edge's estimate share object #0), with vertex 0 fixed:

* with the edge numerically differentiated, `optimizeNumObj` re-binds the FIXED vertex 0 to a new object holding the old
  content — `optimizeObj` (assembling = read-only) keeps it on #0.  This is the disagreement with the code that the trace
  harness found (`NOTES_P10.md`), and what `Model/HeapNumOpt.lean` repairs;
* `execR` hands back the identity of the copy; `numJacSeen` reads the perturbed object off the trace of prefixes.
-/

namespace GraphSlam.Props.C15.Heap.Examples
open GraphSlam GraphSlam.Model GraphSlam.Model.Objects GraphSlam.Props.C15.Heap

/-- integer "floats" for the examples (as in `HeapExamples.lean`) -/
local instance : ScalarF Int where
  ofInt z := z
  cos := id
  sin := id
  pi := 3
  pymod a b := a % b
  sqrt := id
  div a b := a / b
  gt a b := decide (a > b)
  ge a b := decide (a ≥ b)

/-- `w0` with vertex 0 fixed -/
def w1 : World Int Int := { w0 with vertices := [⟨0, 0, true, 0⟩, ⟨1, 0, false, 1⟩] }

/-- **The model gap, on a concrete world.**  One iteration of `optimize` on `w1`:
    * `optimizeObj` (Model/Heap.lean: the assembling pass is a read-only method) leaves the fixed vertex 0 bound to object #0;
    * `optimizeNumObj` with edge 0 numerically differentiated (Model/HeapNumOpt.lean: `BaseEdge.calc_jacobians` runs
      `_calc_jacobian` for both vertices of the edge during the assembling pass) binds it to a NEW object (#6) holding the
      old content `10`; object #0 — still the edge's estimate — is untouched, and the free vertex gets `10 + dx[1]`. -/
theorem numOpt_rebinds_fixed :
    (∃ w', optimizeObj toyLib (fun _ _ => dx12) false 1 w1 = some w' ∧ w'.vertices.map (·.pose) = [0, 4] ∧
      poseOf w'.heap 4 = some 12) ∧
    (∃ w', optimizeNumObj toyLib [⟨0, uerr⟩] 1 (fun _ _ => dx12) false 1 false w1 = some w' ∧
      w'.vertices.map (·.pose) = [6, 14] ∧ w1.heap.size = 2 ∧
      poseOf w'.heap 6 = some 10 ∧ poseOf w'.heap 14 = some 12 ∧ poseOf w'.heap 0 = some 10 ∧
      w'.edges = w1.edges ∧ w'.vertices.map (·.fixed) = [true, false]) :=
  ⟨⟨_, rfl, rfl, rfl⟩, ⟨_, rfl, rfl, rfl, rfl, rfl, rfl, rfl, rfl⟩⟩

/-- the hypotheses of `optimizeNumObj_ext` are satisfiable, and its conclusion on this run -/
example : ∃ w', optimizeNumObj toyLib [⟨0, uerr⟩] 1 (fun _ _ => dx12) true 2 true w0 = some w' ∧
    Ext w0.heap w'.heap ∧ w'.edges = w0.edges := by
  have h : (optimizeNumObj toyLib [⟨0, uerr⟩] 1 (fun _ _ => dx12) true 2 true w0).isSome = true := rfl
  obtain ⟨w', hw'⟩ := Option.isSome_iff_exists.1 h
  have e := optimizeNumObj_ext toyLib [⟨0, uerr⟩] 1 (fun _ _ => dx12) true 2 true w0 w' hw'
  exact ⟨w', hw', e.1, e.2.1⟩

/-- `execR`: `p.copy()` returns object #2 (the old heap size), a new object with the content of #0 -/
example : ∃ w', execR toyLib (.copy 0) w0 = some (w', [2]) ∧ poseOf w'.heap 2 = some 10 := ⟨_, rfl, rfl⟩

/-- `numJacSeen`: the one inner `calc_error()` of `_calc_jacobian(err, 1, 1)` on `w0` read the perturbed pose object #5
    (content `10 + EPS`, still so after the call: nothing overwrites it), not the object the vertex is bound to afterwards (#6) -/
example : numJacSeen toyLib uerr w0 0 1 1 1 = [5] ∧
    (∃ w' J, numJacobianObj toyLib uerr w0 0 1 1 1 = some (w', J) ∧ poseOf w'.heap 5 = some 11 ∧
      w'.vertices.map (·.pose) = [0, 6]) :=
  ⟨rfl, _, _, rfl, rfl, rfl⟩

end GraphSlam.Props.C15.Heap.Examples
