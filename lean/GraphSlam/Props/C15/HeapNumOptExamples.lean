import GraphSlam.Props.C15.HeapNumOptAgree
import GraphSlam.Props.C15.HeapObsExamples

/-!
# C15 (object model) — non-vacuity of the theorems about the repaired `optimize` (`HeapNumOpt.lean`), on concrete ALIASED
worlds evaluated by the kernel

The toy worlds of `HeapExamples.lean` / `HeapObsExamples.lean`: two vertices AND the edge's estimate share object #0
(`w0`: both free; `w1`: vertex 0 fixed); edge 0 is numerically differentiated.  The hypotheses of the main theorems hold and
their conclusions are what the model computes.  A second pose library with a `copy` that is NOT the identity
(`copy p = p + 1`) exercises the exact formula `(copy ∘ copy)^[numPasses · touchN] p`.
-/

namespace GraphSlam.Props.C15.Heap.Examples
open GraphSlam GraphSlam.Model GraphSlam.Model.Objects GraphSlam.Props.C15.Heap

/-- integer "floats" for the examples (as in `HeapExamples.lean`) -/
local instance : ScalarF Int where
  ofInt z := z
  cos := id
  sin := id
  pi := 3
  pymod a b := a % b
  sqrt := id
  div a b := a / b
  gt a b := decide (a > b)
  ge a b := decide (a ≥ b)

theorem toyLib_cdim_copy : ∀ p : Int, toyLib.cdim (toyLib.copy p) = toyLib.cdim p := fun _ => rfl

theorem w1_vwf : VWF w1 := by
  intro v hv
  simp [w1] at hv
  rcases hv with rfl | rfl <;> decide

/-- the vertex positions touched by an assembling pass of `w1` with edge 0 numerically differentiated: both vertices -/
example : touchedBy w1.edges [(⟨0, uerr⟩ : NumEdge Int Int)] = [0, 1] := rfl

/-- **`optimizeNumObj_fixed_same_content` is not vacuous**: on `w1` (fixed vertex 0 shares object #0 with the free vertex 1
    and with the edge's estimate), two updates and the closing pass: the call runs, the hypotheses hold, and the theorem
    gives — without evaluating the call — that vertex 0 ends on an object holding the old `10`, which is a NEW object
    (the vertex is touched in each of the 3 passes). -/
example : ∃ w', optimizeNumObj toyLib [⟨0, uerr⟩] 1 (fun _ _ => dx12) false 2 true w1 = some w' ∧
    ∃ u, w'.vertices[0]? = some u ∧ poseOf w'.heap u.pose = some 10 ∧ w1.heap.size ≤ u.pose ∧ u.pose ≠ 0 ∧
      w'.heap.get? 0 = w1.heap.get? 0 := by
  have h : (optimizeNumObj toyLib [⟨0, uerr⟩] 1 (fun _ _ => dx12) false 2 true w1).isSome = true := rfl
  obtain ⟨w', hw'⟩ := Option.isSome_iff_exists.1 h
  refine ⟨w', hw', ?_⟩
  obtain ⟨e1, _, _, hlen, _, hper, _⟩ := optimizeNumObj_frame toyLib toyLib_cdim_copy [⟨0, uerr⟩] 1 (fun _ _ => dx12) false 2 true
    w1 w' w1_vwf hw' _ rfl
  obtain ⟨u, hu, _⟩ := hper 0 ⟨0, 0, true, 0⟩ rfl
  obtain ⟨_, _, a, _, _, c⟩ := optimizeNumObj_fixed_same_content toyLib toyLib_cdim_copy [⟨0, uerr⟩] 1 (fun _ _ => dx12) false 2
    true w1 w' w1_vwf hw' 0 ⟨0, 0, true, 0⟩ u rfl hu (Or.inl rfl) 10 rfl rfl
  obtain ⟨c1, _, c3⟩ := c (by decide) (by decide) (by decide)
  exact ⟨u, hu, a, c1, c3, e1.2 0 (by decide)⟩

/-- … and what the kernel computes for that call: vertex 0 on object #32 holding `10`, vertex 1 (free, two updates by
    `dx[1] = 2`) on #37 holding `14`, object #0 still `10` -/
example : ∃ w', optimizeNumObj toyLib [⟨0, uerr⟩] 1 (fun _ _ => dx12) false 2 true w1 = some w' ∧
    (w'.vertices.map fun v => (v.pose, poseOf w'.heap v.pose)) = [(32, some 10), (37, some 14)] ∧
    poseOf w'.heap 0 = some 10 := ⟨_, rfl, rfl, rfl⟩

/-- **`numIterObj_shared_fix` is not vacuous**: on `w0` both vertices are free and share object #0; one iteration with the
    edge numerically differentiated runs, the hypotheses hold. -/
example : ∃ wa wb, assembleNumObj toyLib [⟨0, uerr⟩] 1 w0 = some wa ∧ optimizeStepObj toyLib [] dx12 wa = some wb ∧
    ∃ id1 id2, wb.vertices[0]? = some ⟨0, id1, false, 0⟩ ∧ wb.vertices[1]? = some ⟨1, id2, false, 1⟩ ∧ id1 ≠ id2 ∧
      id1 ≠ 0 ∧ id2 ≠ 0 ∧ poseOf wb.heap id1 = some 11 ∧ poseOf wb.heap id2 = some 12 ∧ poseOf wb.heap 0 = some 10 := by
  have ha : (assembleNumObj toyLib [⟨0, uerr⟩] 1 w0).isSome = true := rfl
  obtain ⟨wa, hwa⟩ := Option.isSome_iff_exists.1 ha
  have hb : ((assembleNumObj toyLib [⟨0, uerr⟩] 1 w0).bind (optimizeStepObj toyLib [] dx12)).isSome = true := rfl
  rw [hwa] at hb
  obtain ⟨wb, hwb⟩ := Option.isSome_iff_exists.1 hb
  refine ⟨wa, wb, hwa, hwb, ?_⟩
  exact numIterObj_shared_fix toyLib toyLib_cdim_copy [⟨0, uerr⟩] 1 [] dx12 w0 wa wb w0_vwf hwa hwb 0 1 ⟨0, 0, false, 0⟩
    ⟨1, 0, false, 1⟩ 10 (by decide) rfl rfl rfl rfl (by simp) (by simp) rfl

/-- the refinement theorem is not vacuous: `w1` refines the state `[(0, 1, 10), (1, 1, 10)]` and the whole call reads as two
    `applyDx` -/
example : ∃ w', ∃ dxs : List (Seg Int), optimizeNumObj toyLib [⟨0, uerr⟩] 1 (fun _ _ => dx12) false 2 true w1 = some w' ∧
    dxs.length = 2 ∧
    RefinesSt toyLib w' (dxs.foldl (fun s dx => applyDx toyLib.boxplus [0] s dx.get) [(0, 1, 10), (1, 1, 10)]) := by
  have h : (optimizeNumObj toyLib [⟨0, uerr⟩] 1 (fun _ _ => dx12) false 2 true w1).isSome = true := rfl
  obtain ⟨w', hw'⟩ := Option.isSome_iff_exists.1 h
  obtain ⟨dxs, hl, r⟩ := optimizeNumObj_refines toyLib toyLib_cdim_copy (fun _ _ => rfl) (fun _ => True) (fun _ _ => rfl)
    (fun _ _ _ => trivial) [⟨0, uerr⟩] 1 (fun _ _ => dx12) false 2 true w1 w' [(0, 1, 10), (1, 1, 10)] rfl
    (fun _ _ => trivial) hw' [0] rfl
  exact ⟨w', dxs, hw', hl, r⟩

theorem w1_wf : w1.WF := by
  refine ⟨w1_vwf, fun e he => ?_⟩
  simp [w1, w0] at he; subst he; exact ⟨by decide, by decide, fun o ho => by simp at ho⟩

/-- **`optimizeNumObj_agrees_optimizeObj` is not vacuous**: on `w1` the repaired operation runs, the hypotheses hold, and
    the first model `optimizeObj` returns a world that reads the same (here: poses `10`, `14`; vertex 0 on #0 instead of #32). -/
example : ∃ w' w'', optimizeNumObj toyLib [⟨0, uerr⟩] 1 (fun _ _ => dx12) false 2 true w1 = some w' ∧
    optimizeObj toyLib (fun _ _ => dx12) false 2 w1 = some w'' ∧ w''.view = w'.view ∧
    (w''.vertices.map fun v => (v.pose, poseOf w''.heap v.pose)) = [(0, some 10), (7, some 14)] := by
  have h : (optimizeNumObj toyLib [⟨0, uerr⟩] 1 (fun _ _ => dx12) false 2 true w1).isSome = true := rfl
  obtain ⟨w', hw'⟩ := Option.isSome_iff_exists.1 h
  obtain ⟨w'', hw'', hv⟩ := optimizeNumObj_agrees_optimizeObj toyLib toyLib_cdim_copy (fun _ _ => rfl) (fun _ => True)
    (fun _ _ => rfl) (fun _ _ _ => trivial) [⟨0, uerr⟩] 1 (fun _ _ => dx12) false 2 true w1 w' [(0, 1, 10), (1, 1, 10)]
    w1_wf rfl (fun _ _ => trivial) hw'
  refine ⟨w', w'', hw', hw'', hv, ?_⟩
  have : (optimizeObj toyLib (fun _ _ => dx12) false 2 w1).map
      (fun w => w.vertices.map fun v => (v.pose, poseOf w.heap v.pose)) = some [(0, some 10), (7, some 14)] := rfl
  rw [hw''] at this; exact Option.some.inj this

/-! ### a `copy` that is not the identity: the exact formula -/

/-- `toyLib` with `copy p = p + 1` (no library class behaves like this; SE(2) with an out-of-range angle is the idempotent
    case) -/
def bumpLib : PoseLib Int Int := { toyLib with copy := fun p => p + 1 }

/-- on `w1` under `bumpLib`, 2 updates + the closing pass = 3 assembling passes; the fixed vertex 0 is touched once per
    pass, each touch applies `copy ∘ copy = (· + 2)`: `optimizeNumObj_frame` predicts `(· + 2)^[3 · 1] 10 = 16` — and that is
    what the model computes.  Object #0 still holds `10`. -/
example : ∃ w', optimizeNumObj bumpLib [⟨0, uerr⟩] 1 (fun _ _ => dx12) false 2 true w1 = some w' ∧
    (∀ u, w'.vertices[0]? = some u → poseOf w'.heap u.pose
      = some (Nat.repeat (cc bumpLib) (numPasses 2 true * touchN bumpLib (touchedBy w1.edges [(⟨0, uerr⟩ : NumEdge Int Int)]) 0 10) 10)) ∧
    Nat.repeat (cc bumpLib) (numPasses 2 true * touchN bumpLib (touchedBy w1.edges [(⟨0, uerr⟩ : NumEdge Int Int)]) 0 10) 10 = 16 ∧
    (w'.vertices.map fun v => poseOf w'.heap v.pose) = [some 16, some 20] ∧ poseOf w'.heap 0 = some 10 := by
  have h : (optimizeNumObj bumpLib [⟨0, uerr⟩] 1 (fun _ _ => dx12) false 2 true w1).isSome = true := rfl
  obtain ⟨w', hw'⟩ := Option.isSome_iff_exists.1 h
  have hw'' := hw'
  obtain ⟨_, _, _, _, _, hper, _⟩ := optimizeNumObj_frame bumpLib (fun _ => rfl) [⟨0, uerr⟩] 1 (fun _ _ => dx12) false 2 true
    w1 w' w1_vwf hw' _ rfl
  refine ⟨w', hw', fun u hu => ?_, rfl, ?_, ?_⟩
  · obtain ⟨u', hu', _, _, _, _, hfix, _⟩ := hper 0 ⟨0, 0, true, 0⟩ rfl
    rw [hu] at hu'; cases hu'
    exact ((hfix (Or.inl (by decide))).2 10 rfl).1
  · have : (optimizeNumObj bumpLib [⟨0, uerr⟩] 1 (fun _ _ => dx12) false 2 true w1).map
        (fun w' => w'.vertices.map fun v => poseOf w'.heap v.pose) = some [some 16, some 20] := rfl
    rw [hw''] at this; exact Option.some.inj this
  · have : (optimizeNumObj bumpLib [⟨0, uerr⟩] 1 (fun _ _ => dx12) false 2 true w1).map
        (fun w' => poseOf w'.heap 0) = some (some 10) := rfl
    rw [hw''] at this; exact Option.some.inj this

end GraphSlam.Props.C15.Heap.Examples
