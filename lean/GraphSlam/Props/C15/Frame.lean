import GraphSlam.Props.C16.NumJac
import GraphSlam.Props.C06.Fixed
import GraphSlam.Props.C09.SE2
import GraphSlam.Props.C09.Rn
import GraphSlam.Generated.PoseSE3

/-!
# C15 — queries are pure; optimize changes only vertex poses

What is *logic* is proved here; numpy aliasing / in-place behaviour is runtime behaviour that only the trace harness
(`tools/harness/purity.py`: bitwise snapshots after every operation, scribbling over every returned array) observes.

* numerical differentiation (the only query that writes to a vertex) restores every pose exactly: `numJacobian_pure`
  (C16) needs `copy p = p`, discharged here for the generated `copy` of each pose type;
* `optimize` (any number of iterations, any solver behaviour) changes nothing but the poses of non-fixed vertices:
  gradient indices, dimensions, the order of vertices and every fixed pose are preserved;
* pose operators are functions of their operands in the model (value semantics): `p += q` is `p := p ⊕ q`
  (base_pose.py:155-169 `return self + other`), so operands are never mutated — that this also holds for the
  numpy objects is what the harness checks (`id` of the rebinding, scribble probes).
-/

namespace GraphSlam.Props.C15
open GraphSlam GraphSlam.Gen GraphSlam.Model GraphSlam.Props.C06 GraphSlam.Props.C09

theorem PoseSE3_copy_eq (p : Fin 7 → ℝ) : PoseSE3.copy p = p := by
  funext i; fin_cases i <;> rfl

/-- the restore value `p0.copy()` of `_calc_jacobian` is the original pose, for every pose type the library has -/
theorem copy_fixed_point :
    (∀ p : Fin 2 → ℝ, PoseR2.copy p = p) ∧ (∀ p : Fin 3 → ℝ, PoseR3.copy p = p) ∧
    (∀ p : Fin 3 → ℝ, InRange p → PoseSE2.copy p = p) ∧ (∀ p : Fin 7 → ℝ, PoseSE3.copy p = p) :=
  ⟨PoseR2_copy_eq, PoseR3_copy_eq, PoseSE2_copy_eq, PoseSE3_copy_eq⟩

/-- numerical Jacobians of an edge over SE(2) vertices leave the store untouched (in-range angles) -/
theorem numJacobian_pure_SE2 (err : List (Fin 3 → ℝ) → Nat → ℝ) (k dim : Nat) (eps : ℝ) (ps : List (Fin 3 → ℝ))
    (p : Fin 3 → ℝ) (hk : ps[k]? = some p) (hr : InRange p) :
    (numJacobian err (fun q δ => PoseSE2.boxplus q (fun i => δ i.val)) PoseSE2.copy k dim eps ps).2 = ps :=
  C16.numJacobian_pure err _ PoseSE2.copy k dim eps ps p hk (PoseSE2_copy_eq p hr)

theorem numJacobian_pure_SE3 (err : List (Fin 7 → ℝ) → Nat → ℝ) (k dim : Nat) (eps : ℝ) (ps : List (Fin 7 → ℝ))
    (p : Fin 7 → ℝ) (hk : ps[k]? = some p) :
    (numJacobian err (fun q δ => PoseSE3.boxplus q (fun i => δ i.val)) PoseSE3.copy k dim eps ps).2 = ps :=
  C16.numJacobian_pure err _ PoseSE3.copy k dim eps ps p hk (PoseSE3_copy_eq p)

variable {E : Type} [Scalar E] {P : Type}

/-- `optimize` never changes the layout: ids/order/gradient indices/dimensions of all vertices (n iterations) -/
theorem optimize_layout (boxplus : P → (Nat → E) → P) (fixed : List Nat) (solve : St P → (Nat → E)) (n : Nat) (s : St P) :
    ((iter boxplus fixed solve)^[n] s).map (fun v => (v.1, v.2.1)) = s.map (fun v => (v.1, v.2.1)) := by
  induction n generalizing s with
  | zero => rfl
  | succ n ih =>
    rw [Function.iterate_succ, Function.comp, ih]
    exact applyDx_layout boxplus fixed s (solve s)

/-- … and never a fixed pose (restated from C06 for the frame condition) -/
theorem optimize_frame_fixed (boxplus : P → (Nat → E) → P) (fixed : List Nat) (solve : St P → (Nat → E)) (n : Nat)
    (s : St P) (k : Nat) (v : Nat × Nat × P) (hv : s[k]? = some v) (hf : v.1 ∈ fixed) :
    ((iter boxplus fixed solve)^[n] s)[k]? = some v :=
  fixed_unchanged boxplus fixed solve n s k v hv hf

end GraphSlam.Props.C15
