import GraphSlam.Props.C15.HeapOptimize

/-!
# C15 (object model) — every single call (`exec`) and every history of calls (`run`)

Frame facts for each `Op` and, by induction over operation lists, for all histories.  Core Lean only.
-/

namespace GraphSlam.Props.C15.Heap
open GraphSlam GraphSlam.Model GraphSlam.Model.Objects

variable {P E : Type}

/-! ### the read-only calls -/

theorem allocAll_ext (h : Heap (Obj P E)) (os : List (Obj P E)) :
    Ext h (allocAll h os).1 ∧ ∀ id ∈ (allocAll h os).2, h.size ≤ id ∧ id < (allocAll h os).1.size := by
  induction os generalizing h with
  | nil => exact ⟨Ext.refl _, fun id hid => by simp [allocAll] at hid⟩
  | cons o os ih =>
    obtain ⟨a, b⟩ := ih (h.alloc o).1
    simp only [allocAll]
    refine ⟨(ext_alloc h o).trans a, fun id hid => ?_⟩
    rcases List.mem_cons.1 hid with rfl | hid
    · have := a.1; rw [size_alloc] at this; exact ⟨Nat.le_refl _, by omega⟩
    · have := b id hid; rw [size_alloc] at this; exact ⟨by omega, this.2⟩

/-- the contents of the result objects of a `query` are `f` of the view -/
theorem allocAll_get? (h : Heap (Obj P E)) (os : List (Obj P E)) :
    (allocAll h os).2.map (allocAll h os).1.get? = os.map some := by
  induction os generalizing h with
  | nil => rfl
  | cons o os ih =>
    simp only [allocAll, List.map_cons]
    rw [ih]
    congr 1
    exact (allocAll_ext (h.alloc o).1 os).1.get? (get?_alloc_self h o)

theorem query_frame (f : GraphView P E → List (Obj P E)) (w : World P E) : QFrame w (query f w).1 :=
  QFrame.of_ext w (allocAll_ext w.heap (f w.view)).1

theorem calcErrorOdo_frame {L : PoseLib P E} {w : World P E} {ei : Nat} {r : World P E × Nat}
    (h : calcErrorOdo L w ei = some r) : QFrame w r.1 ∧ w.heap.size ≤ r.2 ∧ r.2 < r.1.heap.size := by
  unfold calcErrorOdo at h
  split at h
  · exact absurd h (by simp)
  · split at h
    · obtain ⟨t1, h1, h⟩ := Option.bind_eq_some_iff.1 h
      obtain ⟨t2, h2, h⟩ := Option.bind_eq_some_iff.1 h
      obtain ⟨t3, h3, h⟩ := Option.map_eq_some_iff.1 h
      subst h
      obtain ⟨_, _, _, _, _, _, a1⟩ := poseSub_spec h1
      obtain ⟨_, _, _, _, _, _, a2⟩ := poseSub_spec h2
      obtain ⟨_, _, a3⟩ := poseToCompact_spec h3
      have e12 := a1.ext.trans a2.ext
      refine ⟨QFrame.of_ext w (e12.trans a3.ext), ?_, ?_⟩
      · simp only; rw [a3.id]; exact e12.1
      · simp only; rw [a3.id, a3.size]; omega
    · exact absurd h (by simp)

theorem calcErrorLm_frame {L : PoseLib P E} {w : World P E} {ei : Nat} {r : World P E × Nat}
    (h : calcErrorLm L w ei = some r) : QFrame w r.1 ∧ w.heap.size ≤ r.2 ∧ r.2 < r.1.heap.size := by
  unfold calcErrorLm at h
  split at h
  · exact absurd h (by simp)
  · split at h
    · obtain ⟨t1, h1, h⟩ := Option.bind_eq_some_iff.1 h
      obtain ⟨t2, h2, h⟩ := Option.bind_eq_some_iff.1 h
      obtain ⟨t3, h3, h⟩ := Option.bind_eq_some_iff.1 h
      obtain ⟨t4, h4, h⟩ := Option.bind_eq_some_iff.1 h
      obtain ⟨t5, h5, h⟩ := Option.map_eq_some_iff.1 h
      subst h
      obtain ⟨_, a1⟩ := poseAdd_alloc h1
      obtain ⟨_, _, a2⟩ := poseInverse_spec h2
      obtain ⟨_, a3⟩ := poseAdd_alloc h3
      obtain ⟨_, _, _, _, _, _, a4⟩ := poseSub_spec h4
      obtain ⟨_, _, a5⟩ := poseToCompact_spec h5
      have e14 := ((a1.ext.trans a2.ext).trans a3.ext).trans a4.ext
      refine ⟨QFrame.of_ext w (e14.trans a5.ext), ?_, ?_⟩
      · simp only; rw [a5.id]; exact e14.1
      · simp only; rw [a5.id, a5.size]; omega
    · exact absurd h (by simp)

variable [ScalarF E]

/-- **Queries only read.**  A pose operator / `calc_error` / any read-only method leaves every vertex and every edge with
    the same references and flags, and every existing object bit-identical; it only allocates. -/
theorem exec_query_frame (L : PoseLib P E) (op : Op P E) (hq : op.isQuery = true) (w w' : World P E)
    (h : exec L op w = some w') : QFrame w w' := by
  cases op with
  | copy p =>
    obtain ⟨r, hr, rfl⟩ := Option.map_eq_some_iff.1 h
    obtain ⟨_, _, a⟩ := poseCopy_spec hr
    exact QFrame.of_ext w a.ext
  | add p q =>
    obtain ⟨r, hr, rfl⟩ := Option.map_eq_some_iff.1 h
    obtain ⟨_, a⟩ := poseAdd_alloc hr
    exact QFrame.of_ext w a.ext
  | sub p q =>
    obtain ⟨r, hr, rfl⟩ := Option.map_eq_some_iff.1 h
    obtain ⟨_, _, _, _, _, _, a⟩ := poseSub_spec hr
    exact QFrame.of_ext w a.ext
  | inverse p =>
    obtain ⟨r, hr, rfl⟩ := Option.map_eq_some_iff.1 h
    obtain ⟨_, _, a⟩ := poseInverse_spec hr
    exact QFrame.of_ext w a.ext
  | toCompact p =>
    obtain ⟨r, hr, rfl⟩ := Option.map_eq_some_iff.1 h
    obtain ⟨_, _, a⟩ := poseToCompact_spec hr
    exact QFrame.of_ext w a.ext
  | calcErrorOdo ei =>
    obtain ⟨r, hr, rfl⟩ := Option.map_eq_some_iff.1 h
    exact (calcErrorOdo_frame hr).1
  | calcErrorLm ei =>
    obtain ⟨r, hr, rfl⟩ := Option.map_eq_some_iff.1 h
    exact (calcErrorLm_frame hr).1
  | query f =>
    simp only [exec, Option.some.injEq] at h
    subst h
    exact query_frame f w
  | normalize p => exact absurd hq (by simp [Op.isQuery])
  | iadd k q => exact absurd hq (by simp [Op.isQuery])
  | numJacobian uerr ei vi dim eps => exact absurd hq (by simp [Op.isQuery])
  | optimize solve ffp iters => exact absurd hq (by simp [Op.isQuery])
  | scribble p o => exact absurd hq (by simp [Op.isQuery])

/-! ### every call -/

/-- what any single call does to the heap, to the edges and to the vertex attributes other than `pose` / `fixed` -/
theorem exec_frame (L : PoseLib P E) (op : Op P E) (w w' : World P E) (h : exec L op w = some w') :
    w.heap.size ≤ w'.heap.size ∧
    (∀ id, id < w.heap.size → ¬ op.writesTo id → w'.heap.get? id = w.heap.get? id) ∧
    w'.edges = w.edges ∧
    w'.vertices.map (fun v => (v.id, v.gidx)) = w.vertices.map (fun v => (v.id, v.gidx)) := by
  have ofQ : QFrame w w' → w.heap.size ≤ w'.heap.size ∧
      (∀ id, id < w.heap.size → ¬ op.writesTo id → w'.heap.get? id = w.heap.get? id) ∧ w'.edges = w.edges ∧
      w'.vertices.map (fun v => (v.id, v.gidx)) = w.vertices.map (fun v => (v.id, v.gidx)) :=
    fun q => ⟨q.heap.1, fun id hid _ => q.heap.2 id hid, q.edges, by rw [q.vertices]⟩
  have ofAttrs : ∀ {a b : List VertexO}, b.map (fun v => (v.id, v.fixed, v.gidx)) = a.map (fun v => (v.id, v.fixed, v.gidx)) →
      b.map (fun v => (v.id, v.gidx)) = a.map (fun v => (v.id, v.gidx)) := by
    intro a b hab
    have := congrArg (List.map (fun t : Int × Bool × Nat => (t.1, t.2.2))) hab
    simpa [List.map_map, Function.comp_def] using this
  cases op with
  | copy p => exact ofQ (exec_query_frame L _ rfl w w' h)
  | add p q => exact ofQ (exec_query_frame L _ rfl w w' h)
  | sub p q => exact ofQ (exec_query_frame L _ rfl w w' h)
  | inverse p => exact ofQ (exec_query_frame L _ rfl w w' h)
  | toCompact p => exact ofQ (exec_query_frame L _ rfl w w' h)
  | calcErrorOdo ei => exact ofQ (exec_query_frame L _ rfl w w' h)
  | calcErrorLm ei => exact ofQ (exec_query_frame L _ rfl w w' h)
  | query f => exact ofQ (exec_query_frame L _ rfl w w' h)
  | normalize p =>
    obtain ⟨h', hr, rfl⟩ := Option.map_eq_some_iff.1 h
    obtain ⟨a, b, _, _, rfl⟩ := poseNormalize_spec hr
    refine ⟨by simp, fun id _ hne => ?_, rfl, rfl⟩
    exact get?_write_ne _ _ _ _ (fun hh => hne hh)
  | scribble p o =>
    simp only [exec, Option.some.injEq] at h
    subst h
    refine ⟨by simp, fun id _ hne => ?_, rfl, rfl⟩
    exact get?_write_ne _ _ _ _ (fun hh => hne hh)
  | iadd k q =>
    obtain ⟨v, c, _, hh, hv, he⟩ := vertexIadd_frame (L := L) (w := w) (w' := w') (k := k) (q := q) h
    have e : Ext w.heap w'.heap := by rw [hh]; exact ext_alloc _ _
    exact ⟨e.1, fun id hid _ => e.2 id hid, he, by rw [hv]; exact ofAttrs (Rebound.step k _ _).attrs⟩
  | numJacobian uerr ei vi dim eps =>
    obtain ⟨r, hr, rfl⟩ := Option.map_eq_some_iff.1 h
    obtain ⟨e, he, _, _, k, _, _, hreb⟩ := numJacobianObj_frame L uerr w r.1 ei vi dim eps r.2 hr
    exact ⟨e.1, fun id hid _ => e.2 id hid, he, ofAttrs hreb.attrs⟩
  | optimize solve ffp iters =>
    obtain ⟨e, he, ha, _⟩ := optimizeObj_ext L solve ffp iters w w' h
    exact ⟨e.1, fun id hid _ => e.2 id hid, he, ha⟩

/-- the `fixed` flags change only in `optimize(fix_first_pose=True)`, and then only the first -/
theorem exec_flags (L : PoseLib P E) (op : Op P E) (w w' : World P E) (h : exec L op w = some w') :
    w'.vertices.map (·.fixed) =
      match op with
      | .optimize _ ffp _ => applyFixFirst ffp (w.vertices.map (·.fixed))
      | _ => w.vertices.map (·.fixed) := by
  have ofAttrs : ∀ {a b : List VertexO}, b.map (fun v => (v.id, v.fixed, v.gidx)) = a.map (fun v => (v.id, v.fixed, v.gidx)) →
      b.map (·.fixed) = a.map (·.fixed) := by
    intro a b hab
    have := congrArg (List.map (fun t : Int × Bool × Nat => t.2.1)) hab
    simpa [List.map_map, Function.comp_def] using this
  cases op with
  | copy p => rw [(exec_query_frame L _ rfl w w' h).vertices]
  | add p q => rw [(exec_query_frame L _ rfl w w' h).vertices]
  | sub p q => rw [(exec_query_frame L _ rfl w w' h).vertices]
  | inverse p => rw [(exec_query_frame L _ rfl w w' h).vertices]
  | toCompact p => rw [(exec_query_frame L _ rfl w w' h).vertices]
  | calcErrorOdo ei => rw [(exec_query_frame L _ rfl w w' h).vertices]
  | calcErrorLm ei => rw [(exec_query_frame L _ rfl w w' h).vertices]
  | query f => rw [(exec_query_frame L _ rfl w w' h).vertices]
  | normalize p => obtain ⟨h', _, rfl⟩ := Option.map_eq_some_iff.1 h; rfl
  | scribble p o => simp only [exec, Option.some.injEq] at h; subst h; rfl
  | iadd k q =>
    obtain ⟨v, c, _, _, hv, _⟩ := vertexIadd_frame (L := L) (w := w) (w' := w') (k := k) (q := q) h
    simp only; rw [hv]; exact ofAttrs (Rebound.step k _ _).attrs
  | numJacobian uerr ei vi dim eps =>
    obtain ⟨r, hr, rfl⟩ := Option.map_eq_some_iff.1 h
    obtain ⟨_, _, _, _, k, _, _, hreb⟩ := numJacobianObj_frame L uerr w r.1 ei vi dim eps r.2 hr
    exact ofAttrs hreb.attrs
  | optimize solve ffp iters => exact (optimizeObj_ext L solve ffp iters w w' h).2.2.2

/-! ### every history -/

/-- **Only an in-place operation applied to object `id` changes object `id`.**  Over any history of calls — pose
    operators, queries, numerical differentiation, `optimize`, interleaved in any order, on any world — an object that is
    never the target of `normalize()` (or of a write by the caller) is bit-identical at the end; the heap never shrinks. -/
theorem run_heap (L : PoseLib P E) (ops : List (Op P E)) (w w' : World P E) (h : run L ops w = some w') :
    w.heap.size ≤ w'.heap.size ∧
    ∀ id, id < w.heap.size → (∀ op ∈ ops, ¬ op.writesTo id) → w'.heap.get? id = w.heap.get? id := by
  induction ops generalizing w with
  | nil => simp only [run, Option.some.injEq] at h; subst h; exact ⟨Nat.le_refl _, fun _ _ _ => rfl⟩
  | cons op ops ih =>
    simp only [run] at h
    obtain ⟨w1, h1, h2⟩ := Option.bind_eq_some_iff.1 h
    obtain ⟨a1, a2, _, _⟩ := exec_frame L op w w1 h1
    obtain ⟨b1, b2⟩ := ih w1 h2
    refine ⟨Nat.le_trans a1 b1, fun id hid hno => ?_⟩
    rw [b2 id (by omega) (fun o ho => hno o (List.mem_cons_of_mem _ ho)), a2 id hid (hno op (List.mem_cons_self))]

omit [ScalarF E] in
theorem not_writesTo_of_not_inPlace (op : Op P E) (hop : op.isInPlace = false) (id : Nat) : ¬ op.writesTo id := by
  cases op <;> simp [Op.isInPlace] at hop <;> simp [Op.writesTo]

/-- **Append-only.**  A history without `normalize()` (and without writes by the caller) leaves every pre-existing object
    bit-identical: measurements, information matrices, offsets, pose objects, and every array the caller still holds. -/
theorem run_appendOnly (L : PoseLib P E) (ops : List (Op P E)) (hops : ∀ op ∈ ops, op.isInPlace = false)
    (w w' : World P E) (h : run L ops w = some w') : Ext w.heap w'.heap := by
  obtain ⟨a, b⟩ := run_heap L ops w w' h
  exact ⟨a, fun id hid => b id hid (fun op hop => not_writesTo_of_not_inPlace op (hops op hop) id)⟩

/-- no call ever re-binds an edge attribute, changes a vertex id or a gradient index -/
theorem run_edges_ids (L : PoseLib P E) (ops : List (Op P E)) (w w' : World P E) (h : run L ops w = some w') :
    w'.edges = w.edges ∧ w'.vertices.map (fun v => (v.id, v.gidx)) = w.vertices.map (fun v => (v.id, v.gidx)) := by
  induction ops generalizing w with
  | nil => simp only [run, Option.some.injEq] at h; subst h; exact ⟨rfl, rfl⟩
  | cons op ops ih =>
    simp only [run] at h
    obtain ⟨w1, h1, h2⟩ := Option.bind_eq_some_iff.1 h
    obtain ⟨_, _, a3, a4⟩ := exec_frame L op w w1 h1
    obtain ⟨b1, b2⟩ := ih w1 h2
    exact ⟨b1.trans a3, b2.trans a4⟩

/-- **A history of queries** leaves the whole world unchanged except for heap growth -/
theorem run_queries_frame (L : PoseLib P E) (ops : List (Op P E)) (hops : ∀ op ∈ ops, op.isQuery = true)
    (w w' : World P E) (h : run L ops w = some w') : QFrame w w' := by
  induction ops generalizing w with
  | nil => simp only [run, Option.some.injEq] at h; subst h; exact QFrame.refl w
  | cons op ops ih =>
    simp only [run] at h
    obtain ⟨w1, h1, h2⟩ := Option.bind_eq_some_iff.1 h
    exact (exec_query_frame L op (hops op (List.mem_cons_self)) w w1 h1).trans
      (ih (fun o ho => hops o (List.mem_cons_of_mem _ ho)) w1 h2)

/-- **Repeated calls return identical values.**  After any history of queries, a read-only method `f` returns objects with
    exactly the contents it would have returned at the start (and they are new objects each time). -/
theorem query_deterministic (L : PoseLib P E) (ops : List (Op P E)) (hops : ∀ op ∈ ops, op.isQuery = true)
    (w w' : World P E) (hw : w.WF) (h : run L ops w = some w') (f : GraphView P E → List (Obj P E)) :
    (query f w').2.map (query f w').1.heap.get? = (query f w).2.map (query f w).1.heap.get? ∧
    ∀ id ∈ (query f w').2, w'.heap.size ≤ id := by
  have hv := (run_queries_frame L ops hops w w' h).view hw
  refine ⟨?_, fun id hid => ((allocAll_ext w'.heap (f w'.view)).2 id hid).1⟩
  simp only [query]
  rw [allocAll_get?, allocAll_get?, hv]

/-! ### `copy` independence -/

/-- **Copies are independent.**  After `q = p.copy()`, `q` is a new object with the entries `copy(p)`; whatever is then
    done — any history of calls in which `normalize()` (or a caller's write) is never applied *to `p`*, in particular any
    operation on `q` including `q.normalize()` — leaves `p` bit-identical; and symmetrically for `q`. -/
theorem copy_independent (L : PoseLib P E) (w : World P E) (p : Nat) (r : Heap (Obj P E) × Nat)
    (hc : poseCopy L w.heap p = some r) (ops : List (Op P E)) (w' : World P E)
    (h : run L ops { w with heap := r.1 } = some w') :
    r.2 ≠ p ∧ r.2 = w.heap.size ∧
    (∃ a, poseOf w.heap p = some a ∧ poseOf r.1 r.2 = some (L.copy a) ∧ poseOf r.1 p = some a) ∧
    ((∀ op ∈ ops, ¬ op.writesTo p) → w'.heap.get? p = w.heap.get? p) ∧
    ((∀ op ∈ ops, ¬ op.writesTo r.2) → w'.heap.get? r.2 = r.1.get? r.2) := by
  obtain ⟨a, ha, hal⟩ := poseCopy_spec hc
  have hp := poseOf_lt ha
  obtain ⟨_, b2⟩ := run_heap L ops _ w' h
  refine ⟨by rw [hal.id]; omega, hal.id, ⟨a, ha, poseOf_eq_some.2 hal.get?, posePres_of_ext hal.ext _ _ ha⟩, fun hno => ?_,
    fun hno => ?_⟩
  · rw [b2 p (by simp only; rw [hal.size]; omega) hno]
    exact hal.ext.2 p hp
  · exact b2 r.2 (by simp only; rw [hal.size, hal.id]; omega) hno

end GraphSlam.Props.C15.Heap
