import GraphSlam.Props.C15.HeapObs

/-!
# C15 (object model) — what the assembling pass of `optimize` does to the world when edges are numerically differentiated

`BaseEdge.calc_jacobians` (base_edge.py:142-157) runs `_calc_jacobian` once per vertex of the edge; each run with
`dim > 0` ends with `self.vertices[k].pose = p0.copy()` where `p0 = pose.copy()`: the vertex is re-bound to a NEW object
holding `copy (copy p)`.  This file follows that through `numJacobianObj` → `calcJacobiansNumObj` → `assembleNumObj`
(`Model/HeapNumOpt.lean`) for every world (aliasing allowed):

* `numJacobianObj_content` — one `_calc_jacobian`: the differentiated vertex is bound to a new object with content
  `copy (copy p)` (`dim > 0`), or nothing is re-bound (`dim = 0`);
* `Touched L ks w w'`      — the relation "the vertices at the positions `ks` (in this order, with repetitions) were
  touched by a `_calc_jacobian`": append-only heap, same edges, same vertex records up to the `pose` reference; vertex
  `j` holds `(copy ∘ copy)^[count j ks] p` (`touchP`), in the SAME object iff it was not touched (or its
  `COMPACT_DIMENSIONALITY` is 0), otherwise in an object allocated by the call; an object allocated by the call is bound
  to at most one vertex (`Fresh`);
* `calcJacobiansNumObj_touched`, `assembleNumObj_touched` — the touched positions are the vertex lists of the
  numerically differentiated edges (`touchedBy`).

Core Lean only.
-/

namespace GraphSlam.Props.C15.Heap
open GraphSlam GraphSlam.Model GraphSlam.Model.Objects

variable {P E : Type}

/-! ### iterates -/

/-- `f` applied `a` times, then `b` times (`Nat.repeat` of core Lean: `repeat f (n+1) x = f (repeat f n x)`) -/
theorem repeat_add {α : Type} (f : α → α) (a b : Nat) (x : α) :
    Nat.repeat f b (Nat.repeat f a x) = Nat.repeat f (a + b) x := by
  induction b with
  | zero => rfl
  | succ b ih => show f (Nat.repeat f b (Nat.repeat f a x)) = f (Nat.repeat f (a + b) x); rw [ih]

theorem repeat_fix {α : Type} (f : α → α) (x : α) (hx : f x = x) (m : Nat) : Nat.repeat f m x = x := by
  induction m with
  | zero => rfl
  | succ m ih => show f (Nat.repeat f m x) = x; rw [ih, hx]

/-! ### one `_calc_jacobian`: the content of the re-bound vertex -/

section loop
variable [ScalarF E]

/-- the loop of `_calc_jacobian`: pose objects keep their entries (the in-place writes go to `delta_pose` and `jacobian`,
    which are arrays); after at least one column the vertex is bound to a new object holding `p0.copy()` -/
theorem numJacLoopObj_content (L : PoseLib P E) (uerr : EdgeView P E → Seg E) (e : EdgeO) (k dim : Nat) (eps : E)
    (err0 : Seg E) (p0 J : Nat) (p0c : P) :
    ∀ (n d : Nat) (w w' : World P E), numJacLoopObj L uerr e k dim eps err0 p0 J n d w = some w' →
      poseOf w.heap p0 = some p0c →
      PosePres w.heap w'.heap ∧ (n = 0 → w' = w) ∧
      (0 < n → ∃ id, w.heap.size ≤ id ∧ id < w'.heap.size ∧ w'.vertices = rebindList w.vertices k id ∧
        poseOf w'.heap id = some (L.copy p0c)) := by
  intro n
  induction n with
  | zero =>
    intro d w w' h hp0
    simp only [numJacLoopObj] at h
    cases h
    exact ⟨PosePres.refl _, fun _ => rfl, fun h => absurd h (Nat.lt_irrefl 0)⟩
  | succ n ih =>
    intro d w w' h hp0
    simp only [numJacLoopObj] at h
    split at h
    · exact absurd h (by simp)
    · rename_i w3 h3
      split at h
      · rename_i Jb hJb
        split at h
        · exact absurd h (by simp)
        · rename_i c hc
          generalize hzero : (Obj.seg (⟨dim, fun _ => Scalar.ofInt 0⟩ : Seg E) : Obj P E) = zeros at h3
          generalize hunit : (Obj.seg (segSetIdx (⟨dim, fun _ => Scalar.ofInt 0⟩ : Seg E) d eps) : Obj P E) = unit at h3
          obtain ⟨v, cadd, hv, hh3, hv3, he3⟩ := vertexIadd_frame h3
          simp only [alloc_snd] at hh3 hv3 hv
          have pp2 : PosePres w.heap ((w.heap.alloc zeros).1.write w.heap.size unit) :=
            (posePres_alloc _ _).trans (posePres_write _ _ _ (by
              intro p; rw [get?_alloc_self, ← hzero]; simp))
          have pp3 : PosePres w.heap w3.heap := by rw [hh3]; exact pp2.trans (posePres_alloc _ _)
          have hs3 : w3.heap.size = w.heap.size + 2 := by rw [hh3]; simp
          generalize hcol : (fun r => ScalarF.div ((uerr (w3.edgeView e)).get r - err0.get r) eps) = col at hc
          have pp4 : PosePres w3.heap (w3.heap.write J (.block (blockSetCol Jb d col))) :=
            posePres_write _ _ _ (by intro q; rw [hJb]; simp)
          obtain ⟨a, ha, hca⟩ := poseCopy_spec hc
          have hp0' : poseOf (w3.heap.write J (.block (blockSetCol Jb d col))) p0 = some p0c := pp4 _ _ (pp3 _ _ hp0)
          have hap : a = p0c := by rw [hp0'] at ha; exact (Option.some.inj ha).symm
          subst hap
          have pp5 : PosePres w.heap c.1 := pp3.trans (pp4.trans (posePres_of_ext hca.ext))
          have hc2 : c.2 = w.heap.size + 2 := by rw [hca.id]; simp [hs3]
          have hcs : c.1.size = w.heap.size + 3 := by rw [hca.size]; simp [hs3]
          have hp05 : poseOf c.1 p0 = some a := posePres_of_ext hca.ext _ _ hp0'
          have hvs : (({ w3 with heap := c.1 } : World P E).rebind k c.2).vertices = rebindList w.vertices k c.2 := by
            show rebindList w3.vertices k c.2 = _
            rw [hv3]; exact rebindList_rebindList _ _ _ _
          obtain ⟨g1, g2, g3⟩ := ih (d + 1) _ w' h hp05
          refine ⟨pp5.trans g1, fun hh => by omega, fun _ => ?_⟩
          cases Nat.eq_zero_or_pos n with
          | inl hz =>
            have := g2 hz
            subst this
            exact ⟨c.2, by omega, by show c.2 < c.1.size; omega, hvs, poseOf_eq_some.2 hca.get?⟩
          | inr hp =>
            obtain ⟨id, i1, i2, i3, i4⟩ := g3 hp
            refine ⟨id, ?_, i2, ?_, i4⟩
            · have : (({ w3 with heap := c.1 } : World P E).rebind k c.2).heap.size = w.heap.size + 3 := hcs
              omega
            · rw [i3, hvs]; exact rebindList_rebindList _ _ _ _
      · exact absurd h (by simp)

/-- **One `_calc_jacobian`, content and identity.**  The call succeeded, so the edge, the vertex `k` and its pose object
    (entries `p`) exist.  With `dim = 0` no vertex record changes.  With `dim > 0` vertex `k` — and no other — is
    re-bound, to an object allocated by the call, and that object holds `copy (copy p)` (`p0 = pose.copy()`, then
    `pose = p0.copy()`, base_edge.py:180, 191). -/
theorem numJacobianObj_content (L : PoseLib P E) (uerr : EdgeView P E → Seg E) (w w' : World P E) (ei vi dim : Nat)
    (eps : E) (J : Nat) (h : numJacobianObj L uerr w ei vi dim eps = some (w', J)) :
    ∃ e k v p, w.edges[ei]? = some e ∧ e.verts[vi]? = some k ∧ w.vertices[k]? = some v ∧
      poseOf w.heap v.pose = some p ∧
      (dim = 0 → w'.vertices = w.vertices) ∧
      (0 < dim → ∃ id, w.heap.size ≤ id ∧ id < w'.heap.size ∧ w'.vertices = rebindList w.vertices k id ∧
        poseOf w'.heap id = some (L.copy (L.copy p))) := by
  unfold numJacobianObj at h
  split at h
  · exact absurd h (by simp)
  · rename_i e he
    split at h
    · exact absurd h (by simp)
    · rename_i k hk
      split at h
      · exact absurd h (by simp)
      · rename_i v hv
        dsimp only at h
        split at h
        · exact absurd h (by simp)
        · rename_i c hc
          obtain ⟨w'', hw'', hpair⟩ := Option.map_eq_some_iff.1 h
          cases hpair
          generalize hz : (Obj.block (⟨(uerr (w.edgeView e)).len, dim, fun _ _ => Scalar.ofInt 0⟩ : Block E) : Obj P E)
            = zeros at hc hw''
          obtain ⟨a, ha, hca⟩ := poseCopy_spec hc
          have hpv : poseOf w.heap v.pose = some a := by
            have hlt : v.pose < w.heap.size := by
              have := poseOf_lt ha
              rw [size_alloc] at this
              by_cases hh : v.pose < w.heap.size
              · exact hh
              · have hveq : v.pose = w.heap.size := by omega
                rw [hveq, poseOf_eq_some, get?_alloc_self, ← hz] at ha
                exact absurd ha (by simp)
            rw [← (ext_alloc w.heap zeros).poseOf hlt]; exact ha
          have hcs : c.1.size = w.heap.size + 2 := by rw [hca.size]; simp
          have hp0 : poseOf c.1 c.2 = some (L.copy a) := poseOf_eq_some.2 hca.get?
          obtain ⟨_, g2, g3⟩ := numJacLoopObj_content L uerr e k dim eps _ c.2 w.heap.size (L.copy a) dim 0 _ w' hw'' hp0
          refine ⟨e, k, v, a, he, hk, hv, hpv, fun hd => ?_, fun hd => ?_⟩
          · rw [g2 hd]
          · obtain ⟨id, i1, i2, i3, i4⟩ := g3 hd
            exact ⟨id, by simp only at i1; omega, i2, i3, i4⟩

end loop

/-! ### `Touched`: the effect of a sequence of `_calc_jacobian`s on the world -/

/-- what one `_calc_jacobian` (with `dim > 0`) leaves in the vertex: `p0 = pose.copy()`, `pose = p0.copy()` -/
def cc (L : PoseLib P E) (p : P) : P := L.copy (L.copy p)

/-- how many of the `_calc_jacobian`s run at the vertex positions `ks` re-bind vertex `j` (content `p`): every one at
    position `j`, unless `COMPACT_DIMENSIONALITY = 0` (then the loop body never runs) -/
def touchN (L : PoseLib P E) (ks : List Nat) (j : Nat) (p : P) : Nat := if L.cdim p = 0 then 0 else ks.count j

/-- the content of vertex `j` after them -/
def touchP (L : PoseLib P E) (ks : List Nat) (j : Nat) (p : P) : P := Nat.repeat (cc L) (touchN L ks j p) p

/-- an object allocated since the heap had `n` objects is bound to at most one vertex -/
def Fresh (n : Nat) (vs : List VertexO) : Prop :=
  ∀ (j1 j2 : Nat) (u1 u2 : VertexO), j1 ≠ j2 → vs[j1]? = some u1 → vs[j2]? = some u2 → n ≤ u1.pose → u1.pose ≠ u2.pose

/-- `w'` is `w` after `_calc_jacobian` ran at the vertex positions `ks` (in this order): nothing older than the call is
    written; edges are untouched; vertex records differ at most in the `pose` reference; a vertex that was not touched
    keeps its object; a vertex whose object held the pose `p` holds `touchP L ks j p`, in the same object if
    `touchN L ks j p = 0`, otherwise in an object allocated by the call; objects allocated by the call are not shared. -/
structure Touched (L : PoseLib P E) (ks : List Nat) (w w' : World P E) : Prop where
  heap : Ext w.heap w'.heap
  edges : w'.edges = w.edges
  len : w'.vertices.length = w.vertices.length
  vert : ∀ (j : Nat) (v : VertexO), w.vertices[j]? = some v → ∃ id, w'.vertices[j]? = some { v with pose := id } ∧
      (id = v.pose ∨ (w.heap.size ≤ id ∧ id < w'.heap.size ∧ ∃ p, poseOf w.heap v.pose = some p)) ∧
      (j ∉ ks → id = v.pose) ∧
      ∀ p, poseOf w.heap v.pose = some p →
        poseOf w'.heap id = some (touchP L ks j p) ∧ (touchN L ks j p = 0 → id = v.pose) ∧
        (0 < touchN L ks j p → w.heap.size ≤ id)
  fresh : Fresh w.heap.size w'.vertices

theorem touchN_nil (L : PoseLib P E) (j : Nat) (p : P) : touchN L [] j p = 0 := by simp [touchN]

theorem touchP_nil (L : PoseLib P E) (j : Nat) (p : P) : touchP L [] j p = p := by simp [touchP, touchN_nil, Nat.repeat]

theorem touchN_of_not_mem (L : PoseLib P E) {ks : List Nat} {j : Nat} (hj : j ∉ ks) (p : P) : touchN L ks j p = 0 := by
  simp [touchN, List.count_eq_zero_of_not_mem hj]

theorem touchN_pos_iff (L : PoseLib P E) (ks : List Nat) (j : Nat) (p : P) :
    0 < touchN L ks j p ↔ j ∈ ks ∧ 0 < L.cdim p := by
  unfold touchN
  by_cases hc : L.cdim p = 0
  · simp [hc]
  · simp [hc, List.count_pos_iff, Nat.pos_of_ne_zero hc]

theorem cdim_repeat (L : PoseLib P E) (hcc : ∀ p, L.cdim (L.copy p) = L.cdim p) (m : Nat) (p : P) :
    L.cdim (Nat.repeat (cc L) m p) = L.cdim p := by
  induction m with
  | zero => rfl
  | succ m ih => show L.cdim (L.copy (L.copy (Nat.repeat (cc L) m p))) = _; rw [hcc, hcc, ih]

theorem cdim_touchP (L : PoseLib P E) (hcc : ∀ p, L.cdim (L.copy p) = L.cdim p) (ks : List Nat) (j : Nat) (p : P) :
    L.cdim (touchP L ks j p) = L.cdim p := cdim_repeat L hcc _ p

theorem touchN_touchP (L : PoseLib P E) (hcc : ∀ p, L.cdim (L.copy p) = L.cdim p) (ks1 ks2 : List Nat) (j : Nat) (p : P) :
    touchN L ks2 j (touchP L ks1 j p) = touchN L ks2 j p := by
  unfold touchN; rw [cdim_touchP L hcc]

theorem touchN_append (L : PoseLib P E) (ks1 ks2 : List Nat) (j : Nat) (p : P) :
    touchN L (ks1 ++ ks2) j p = touchN L ks1 j p + touchN L ks2 j p := by
  unfold touchN
  by_cases hc : L.cdim p = 0
  · simp [hc]
  · simp [hc, List.count_append]

theorem touchP_append (L : PoseLib P E) (hcc : ∀ p, L.cdim (L.copy p) = L.cdim p) (ks1 ks2 : List Nat) (j : Nat) (p : P) :
    touchP L ks2 j (touchP L ks1 j p) = touchP L (ks1 ++ ks2) j p := by
  unfold touchP
  rw [show touchN L ks2 j (Nat.repeat (cc L) (touchN L ks1 j p) p) = touchN L ks2 j p from touchN_touchP L hcc ks1 ks2 j p,
    repeat_add, touchN_append]

/-- a content that `copy` leaves alone is left alone by any number of `_calc_jacobian`s -/
theorem touchP_of_fix (L : PoseLib P E) (ks : List Nat) (j : Nat) (p : P) (hp : L.copy p = p) : touchP L ks j p = p :=
  repeat_fix _ _ (by unfold cc; rw [hp, hp]) _

/-- for an idempotent `copy` (the library's: `PoseSE2.copy` wraps the angle, the others are the identity) a touched
    vertex holds `copy p` -/
theorem touchP_of_idem (L : PoseLib P E) (hidem : ∀ p, L.copy (L.copy p) = L.copy p) (ks : List Nat) (j : Nat) (p : P) :
    touchP L ks j p = if touchN L ks j p = 0 then p else L.copy p := by
  unfold touchP
  generalize touchN L ks j p = m
  induction m with
  | zero => rfl
  | succ m ih =>
    show cc L (Nat.repeat (cc L) m p) = _
    rw [ih]
    by_cases hm : m = 0
    · simp [hm, cc, hidem]
    · simp [hm, cc, hidem]

theorem fresh_of_vwf {w : World P E} (hwf : VWF w) : Fresh w.heap.size w.vertices := by
  intro j1 j2 u1 u2 _ h1 _ hn
  have := hwf u1 (List.mem_of_getElem? h1)
  omega

theorem Touched.refl (L : PoseLib P E) {w : World P E} (hwf : VWF w) : Touched L [] w w :=
  ⟨Ext.refl _, rfl, rfl, fun j v hv => ⟨v.pose, hv, Or.inl rfl, fun _ => rfl, fun p hp =>
    ⟨by rw [touchP_nil]; exact hp, fun _ => rfl, fun h => by rw [touchN_nil] at h; omega⟩⟩, fresh_of_vwf hwf⟩

theorem Touched.vwf {L : PoseLib P E} {ks : List Nat} {w w' : World P E} (t : Touched L ks w w') (hwf : VWF w) : VWF w' := by
  intro u hu
  obtain ⟨j, hj⟩ := List.getElem?_of_mem hu
  have hlt := lt_length_of_getElem? hj
  rw [t.len] at hlt
  obtain ⟨id, hid, hcase, _⟩ := t.vert j _ (List.getElem?_eq_getElem hlt)
  rw [hid] at hj; cases hj
  rcases hcase with h1 | h1
  · have := hwf _ (List.getElem_mem hlt); have := t.heap.1; simp only [h1]; omega
  · exact h1.2.1

/-- the record of vertex `j` before, from its record after -/
theorem Touched.before {L : PoseLib P E} {ks : List Nat} {w w' : World P E} (t : Touched L ks w w') {j : Nat} {u : VertexO}
    (hu : w'.vertices[j]? = some u) : ∃ v, w.vertices[j]? = some v ∧ u = { v with pose := u.pose } := by
  have hlt := lt_length_of_getElem? hu
  rw [t.len] at hlt
  obtain ⟨id, hid, _⟩ := t.vert j _ (List.getElem?_eq_getElem hlt)
  rw [hid] at hu; cases hu
  exact ⟨_, List.getElem?_eq_getElem hlt, rfl⟩

theorem Touched.trans {L : PoseLib P E} (hcc : ∀ p, L.cdim (L.copy p) = L.cdim p) {ks1 ks2 : List Nat} {w1 w2 w3 : World P E}
    (hwf : VWF w1) (a : Touched L ks1 w1 w2) (b : Touched L ks2 w2 w3) : Touched L (ks1 ++ ks2) w1 w3 := by
  have hwf2 := a.vwf hwf
  refine ⟨a.heap.trans b.heap, b.edges.trans a.edges, b.len.trans a.len, fun j v hv => ?_, ?_⟩
  · obtain ⟨id1, h1, c1, n1, p1⟩ := a.vert j v hv
    obtain ⟨id2, h2, c2, n2, p2⟩ := b.vert j _ h1
    have hvlt := hwf v (List.mem_of_getElem? hv)
    have hs12 := a.heap.1
    have hs23 := b.heap.1
    refine ⟨id2, h2, ?_, fun hj => ?_, fun p hp => ?_⟩
    · rcases c2 with c2 | ⟨c2a, c2b, p2, hp2⟩
      · rcases c1 with c1 | ⟨c1a, c1b, c1c⟩
        · exact Or.inl (by rw [c2]; exact c1)
        · exact Or.inr ⟨by simp only at c2; omega, by simp only at c2; omega, c1c⟩
      · refine Or.inr ⟨by omega, c2b, ?_⟩
        rcases c1 with c1 | ⟨_, _, c1c⟩
        · simp only [c1] at hp2
          rw [a.heap.poseOf hvlt] at hp2
          exact ⟨p2, hp2⟩
        · exact c1c
    · rw [List.mem_append, not_or] at hj
      rw [n2 hj.2]; exact n1 hj.1
    · obtain ⟨q1, q2, q3⟩ := p1 p hp
      obtain ⟨r1, r2, r3⟩ := p2 _ q1
      rw [touchP_append L hcc] at r1
      rw [touchN_touchP L hcc] at r2 r3
      refine ⟨r1, fun hz => ?_, fun hpos => ?_⟩
      · rw [touchN_append] at hz
        rw [r2 (by omega)]; exact q2 (by omega)
      · rw [touchN_append] at hpos
        by_cases h0 : 0 < touchN L ks2 j p
        · have := r3 h0; omega
        · rw [r2 (by omega)]; exact q3 (by omega)
  · intro j1 j2 u1 u2 hne hu1 hu2 hn
    obtain ⟨t1, ht1, _⟩ := b.before hu1
    obtain ⟨t2, ht2, _⟩ := b.before hu2
    obtain ⟨i1, hi1, c1, _⟩ := b.vert j1 t1 ht1
    obtain ⟨i2, hi2, c2, _⟩ := b.vert j2 t2 ht2
    rw [hu1] at hi1; cases hi1
    rw [hu2] at hi2; cases hi2
    simp only at c1 c2 hn ⊢
    by_cases hnew : w2.heap.size ≤ i1
    · exact b.fresh j1 j2 _ _ hne hu1 hu2 hnew
    · have hi1 : i1 = t1.pose := by rcases c1 with c1 | c1 <;> omega
      rcases c2 with c2 | c2
      · rw [hi1, c2]
        exact a.fresh j1 j2 t1 t2 hne ht1 ht2 (by omega)
      · have := hwf2 t1 (List.mem_of_getElem? ht1); omega

/-- re-binding ONE vertex to an object with the content `copy (copy p)` (or not at all when `dim = 0`) -/
theorem Touched.of_rebind (L : PoseLib P E) {w w' : World P E} (hwf : VWF w) (hext : Ext w.heap w'.heap)
    (hedges : w'.edges = w.edges) {k : Nat} {v : VertexO} {p : P} (hv : w.vertices[k]? = some v)
    (hp : poseOf w.heap v.pose = some p) {id : Nat} (hvs : w'.vertices = rebindList w.vertices k id)
    (hcase : (L.cdim p = 0 ∧ id = v.pose) ∨
      (L.cdim p ≠ 0 ∧ w.heap.size ≤ id ∧ id < w'.heap.size ∧ poseOf w'.heap id = some (cc L p))) :
    Touched L [k] w w' := by
  have hget : ∀ j, w'.vertices[j]? = if j = k then some { v with pose := id } else w.vertices[j]? := by
    intro j; rw [hvs, rebindList_getElem?]
    by_cases hj : j = k
    · simp [hj, hv]
    · simp [hj]
  refine ⟨hext, hedges, by rw [hvs, rebindList_length], fun j v' hv' => ?_, ?_⟩
  · by_cases hj : j = k
    · subst hj
      rw [hv] at hv'; cases hv'
      refine ⟨id, by rw [hget]; simp, ?_, fun hn => absurd (List.mem_singleton.2 rfl) hn, fun p' hp' => ?_⟩
      · rcases hcase with ⟨_, h2⟩ | ⟨_, h2, h3, _⟩
        · exact Or.inl h2
        · exact Or.inr ⟨h2, h3, p, hp⟩
      · rw [hp] at hp'; cases hp'
        rcases hcase with ⟨h1, h2⟩ | ⟨h1, h2, h3, h4⟩
        · have hn : touchN L [j] j p = 0 := by simp [touchN, h1]
          refine ⟨?_, fun _ => h2, fun hh => by omega⟩
          unfold touchP; rw [hn, h2, hext.poseOf (poseOf_lt hp)]; exact hp
        · have hn : touchN L [j] j p = 1 := by simp [touchN, h1]
          refine ⟨?_, fun hh => by omega, fun _ => h2⟩
          unfold touchP; rw [hn]; exact h4
    · refine ⟨v'.pose, by rw [hget]; simp [hj, hv'], Or.inl rfl, fun _ => rfl, fun p' hp' => ?_⟩
      have hn : touchN L [k] j p' = 0 := touchN_of_not_mem L (by simp [hj]) p'
      refine ⟨?_, fun _ => rfl, fun hh => by omega⟩
      unfold touchP; rw [hn, hext.poseOf (poseOf_lt hp')]; exact hp'
  · intro j1 j2 u1 u2 hne hu1 hu2 hn
    rw [hget] at hu1 hu2
    by_cases h1 : j1 = k
    · have h2 : j2 ≠ k := fun hh => hne (h1.trans hh.symm)
      simp only [h1, if_true] at hu1; cases hu1
      simp only [h2, if_false] at hu2
      have := hwf u2 (List.mem_of_getElem? hu2)
      simp only at hn ⊢; omega
    · simp only [h1, if_false] at hu1
      have := hwf u1 (List.mem_of_getElem? hu1)
      omega

section assemble
variable [ScalarF E]

/-- one `_calc_jacobian(err, v.pose.COMPACT_DIMENSIONALITY, i)` touches the `i`-th vertex of the edge -/
theorem numJacobianObj_touched (L : PoseLib P E) (uerr : EdgeView P E → Seg E) (w w' : World P E) (ei vi dim : Nat)
    (eps : E) (J : Nat) (hwf : VWF w) (h : numJacobianObj L uerr w ei vi dim eps = some (w', J))
    (hdim : ∀ e k v p, w.edges[ei]? = some e → e.verts[vi]? = some k → w.vertices[k]? = some v →
      poseOf w.heap v.pose = some p → dim = L.cdim p) :
    ∃ e k, w.edges[ei]? = some e ∧ e.verts[vi]? = some k ∧ Touched L [k] w w' := by
  obtain ⟨e, k, v, p, he, hk, hv, hp, hzero, hpos⟩ := numJacobianObj_content L uerr w w' ei vi dim eps J h
  obtain ⟨hext, hedges, _⟩ := numJacobianObj_frame L uerr w w' ei vi dim eps J h
  have hd := hdim e k v p he hk hv hp
  refine ⟨e, k, he, hk, ?_⟩
  by_cases hc : L.cdim p = 0
  · refine Touched.of_rebind L hwf hext hedges hv hp (id := v.pose) ?_ (Or.inl ⟨hc, rfl⟩)
    rw [hzero (by omega), rebindList_self _ _ _ hv]
  · obtain ⟨id, i1, i2, i3, i4⟩ := hpos (by omega)
    exact Touched.of_rebind L hwf hext hedges hv hp i3 (Or.inr ⟨hc, i1, i2, i4⟩)

theorem map_getD_range (l : List Nat) : (List.range l.length).map (fun vi => (l[vi]?).getD 0) = l := by
  apply List.ext_getElem?
  intro i
  by_cases hi : i < l.length
  · simp [hi]
  · simp [hi]

/-- **`BaseEdge.calc_jacobians`** touches the vertices of the edge, in order -/
theorem calcJacobiansNumObj_touched (L : PoseLib P E) (hcc : ∀ p, L.cdim (L.copy p) = L.cdim p)
    (uerr : EdgeView P E → Seg E) (eps : E) (w : World P E) (ei : Nat) (r : World P E × List Nat) (hwf : VWF w)
    (h : calcJacobiansNumObj L uerr eps w ei = some r) :
    ∃ e, w.edges[ei]? = some e ∧ Touched L e.verts w r.1 := by
  unfold calcJacobiansNumObj at h
  split at h
  · exact absurd h (by simp)
  · rename_i e he
    refine ⟨e, he, ?_⟩
    have key : ∀ (l : List Nat) (acc r : World P E × List Nat), VWF acc.1 → acc.1.edges[ei]? = some e →
        l.foldlM (fun (acc : World P E × List Nat) vi =>
          match ((e.verts[vi]?).bind (acc.1.vertices[·]?)).bind fun v => poseOf acc.1.heap v.pose with
          | none => none
          | some p => (numJacobianObj L uerr acc.1 ei vi (L.cdim p) eps).map fun r => (r.1, acc.2 ++ [r.2])) acc = some r →
        Touched L (l.map fun vi => (e.verts[vi]?).getD 0) acc.1 r.1 := by
      intro l
      induction l with
      | nil =>
        intro acc r hw _ h
        simp only [List.foldlM_nil] at h
        cases h
        exact Touched.refl L hw
      | cons vi l ih =>
        intro acc r hw hacc h
        simp only [List.foldlM_cons] at h
        obtain ⟨acc1, h1, h2⟩ := Option.bind_eq_some_iff.1 h
        split at h1
        · exact absurd h1 (by simp)
        · rename_i p hp
          obtain ⟨x, hx, hacc1⟩ := Option.map_eq_some_iff.1 h1
          subst hacc1
          obtain ⟨v, hv0, hpv⟩ := Option.bind_eq_some_iff.1 hp
          obtain ⟨k, hk, hv⟩ := Option.bind_eq_some_iff.1 hv0
          obtain ⟨e', k', he', hk', t⟩ := numJacobianObj_touched L uerr acc.1 x.1 ei vi (L.cdim p) eps x.2 hw hx (by
            intro e2 k2 v2 p2 he2 hk2 hv2 hp2
            rw [hacc] at he2; cases he2
            rw [hk] at hk2; cases hk2
            rw [hv] at hv2; cases hv2
            rw [hpv] at hp2; cases hp2
            rfl)
          rw [hacc] at he'; cases he'
          rw [hk] at hk'; cases hk'
          have t2 := ih (x.1, acc.2 ++ [x.2]) r (t.vwf hw) (by show x.1.edges[ei]? = _; rw [t.edges]; exact hacc) h2
          have := Touched.trans hcc hw t t2
          simpa [hk] using this
    have := key _ (w, []) r hwf he h
    rwa [map_getD_range] at this

/-- the vertex positions touched by one assembling pass: the vertex lists of the numerically differentiated edges, in
    graph order -/
def touchedBy (edges : List EdgeO) (nes : List (NumEdge P E)) : List Nat :=
  nes.flatMap fun ne => ((edges[ne.ei]?).map (·.verts)).getD []

omit [ScalarF E] in
theorem mem_touchedBy (edges : List EdgeO) (nes : List (NumEdge P E)) (j : Nat) :
    j ∈ touchedBy edges nes ↔ ∃ ne ∈ nes, ∃ e, edges[ne.ei]? = some e ∧ j ∈ e.verts := by
  unfold touchedBy
  rw [List.mem_flatMap]
  constructor
  · rintro ⟨ne, hne, hj⟩
    cases he : edges[ne.ei]? with
    | none => rw [he] at hj; simp at hj
    | some e => rw [he] at hj; exact ⟨ne, hne, e, he, by simpa using hj⟩
  · rintro ⟨ne, hne, e, he, hj⟩
    exact ⟨ne, hne, by rw [he]; simpa using hj⟩

/-- **One assembling pass** (`_calc_chi2_gradient_hessian` on a graph whose edges `nes` are numerically
    differentiated), for every world with live vertex references: the vertices of these edges are touched. -/
theorem assembleNumObj_touched (L : PoseLib P E) (hcc : ∀ p, L.cdim (L.copy p) = L.cdim p) (nes : List (NumEdge P E))
    (eps : E) : ∀ (w w' : World P E), VWF w → assembleNumObj L nes eps w = some w' →
      Touched L (touchedBy w.edges nes) w w' := by
  unfold assembleNumObj
  induction nes with
  | nil =>
    intro w w' hwf h
    simp only [List.foldlM_nil] at h
    cases h
    exact Touched.refl L hwf
  | cons ne nes ih =>
    intro w w' hwf h
    simp only [List.foldlM_cons] at h
    obtain ⟨w1, h1, h2⟩ := Option.bind_eq_some_iff.1 h
    obtain ⟨r, hr, hw1⟩ := Option.map_eq_some_iff.1 h1
    subst hw1
    obtain ⟨e, he, t⟩ := calcJacobiansNumObj_touched L hcc ne.uerr eps w ne.ei r hwf hr
    have t2 := ih r.1 w' (t.vwf hwf) h2
    rw [t.edges] at t2
    have := Touched.trans hcc hwf t t2
    simpa [touchedBy, he] using this

end assemble

end GraphSlam.Props.C15.Heap
