import GraphSlam.Props.C15.HeapNumTouch
import GraphSlam.Props.C15.Heap

/-!
# C15 (object model) — frame, aliasing and refinement theorems for the REPAIRED object-level `optimize`
(`optimizeNumObj`, `Model/HeapNumOpt.lean`: graphs with numerically differentiated edges)

On such graphs every `_calc_chi2_gradient_hessian()` runs `BaseEdge.calc_jacobians` for the edges `nes`, whose perturb /
restore loop re-binds EVERY vertex of such an edge — fixed ones included — to a fresh copy (`HeapNumTouch.lean`).  So
`optimizeObj_fixed_same_object` is false there.  What is true, for every world (any aliasing), any number of iterations,
any solver behaviour (`solve`), with or without the closing convergence-detecting pass (`extra`):

1. **content frame** — `numIterObj_spec` (one iteration), `optimizeItersNumObj_spec`, `optimizeNumObj_frame`: the heap is
   append-only, edges / ids / gradient indices untouched, flags = `applyFixFirst`; a fixed vertex whose object held `p`
   holds `(copy ∘ copy)^[passes · touchN] p` — that is `p` when `copy p = p` — in the SAME object iff it has no incident
   numerically differentiated edge (or `COMPACT_DIMENSIONALITY = 0`, or no assembling pass ran), otherwise in an object
   allocated by the call; a free vertex gets, per iteration, a new object holding `old ⊞ dx[g : g + c]`;
   objects allocated by the call are never shared between vertices (`Fresh`);
2. **no double update under aliasing** — `numIterObj_shared`, `optimizeNumObj_shared`, `optimizeNumObj_no_new_sharing`;
3. **refinement** — `optimizeItersNumObj_refines_exact` (no hypothesis on `copy`: the value-level iteration is
   `applyDx ∘ touchSt`), `optimizeItersNumObj_refines` / `optimizeNumObj_refines` (poses with `copy p = p`: exactly
   `Model.applyDx` iterated — the value-level model does not see the extra re-bindings), `assembleNumObj_view` (the solver
   is handed the same view), `typed_numiters_refines` / `typed_optimizeNumObj_refines` (`Model.Run.iterStates` /
   `stateAt`), `typedLib_good_real`, `typedLib_copy_idem_real`;
4. **corollary** — `optimizeNumObj_fixed_same_content`: fixed ⇒ same content (replaces `optimizeObj_fixed_same_object`);
   `optimizeNumObj_fixed_content_idem`: the exact content for an idempotent `copy` (SE(2), out-of-range angle).

Hypotheses used throughout: `VWF w` (vertex references are live objects — true of every Python state) and
`hcc : ∀ p, cdim (copy p) = cdim p` (`copy` returns a pose of the same class; `typedLib_cdim_copy`).  Continued in
`HeapNumOptAgree.lean` (by value `optimizeNumObj` = `optimizeObj`; the library over ℝ); examples in `HeapNumOptExamples.lean`.
-/

namespace GraphSlam.Props.C15.Heap
open GraphSlam GraphSlam.Gen GraphSlam.Model GraphSlam.Model.Objects

variable {P E : Type}

/-! ### `Fresh` through re-bindings -/

theorem Fresh.trans {n m : Nat} {vs vs' : List VertexO} (hf : Fresh n vs) (hf' : Fresh m vs')
    (hlen : vs'.length = vs.length) (hb : ∀ v ∈ vs, v.pose < m)
    (hrec : ∀ (j : Nat) (v : VertexO), vs[j]? = some v → ∃ id, vs'[j]? = some { v with pose := id } ∧ (id = v.pose ∨ m ≤ id)) :
    Fresh n vs' := by
  intro j1 j2 u1 u2 hne hu1 hu2 hn
  have l1 := lt_length_of_getElem? hu1
  have l2 := lt_length_of_getElem? hu2
  rw [hlen] at l1 l2
  obtain ⟨i1, hi1, c1⟩ := hrec j1 _ (List.getElem?_eq_getElem l1)
  obtain ⟨i2, hi2, c2⟩ := hrec j2 _ (List.getElem?_eq_getElem l2)
  rw [hu1] at hi1; cases hi1
  rw [hu2] at hi2; cases hi2
  simp only at c1 c2 hn ⊢
  by_cases hnew : m ≤ i1
  · exact hf' j1 j2 _ _ hne hu1 hu2 hnew
  · have hi1 : i1 = vs[j1].pose := by rcases c1 with c1 | c1 <;> omega
    rcases c2 with c2 | c2
    · rw [hi1, c2]
      exact hf j1 j2 _ _ hne (List.getElem?_eq_getElem l1) (List.getElem?_eq_getElem l2) (by omega)
    · have := hb _ (List.getElem_mem l1); omega

/-- the update loop keeps "objects allocated since the heap had `n` objects are not shared": a free vertex gets an object
    newer than every object bound before the loop -/
theorem optimizeStepObj_fresh (L : PoseLib P E) (fixed : List Nat) (dxv : Seg E) (w w' : World P E) (hwf : VWF w)
    (h : optimizeStepObj L fixed dxv w = some w') (n : Nat) (hf : Fresh n w.vertices) : Fresh n w'.vertices := by
  obtain ⟨_, _, g3, g4, g5⟩ := optimizeStepObj_spec L fixed dxv w w' hwf h
  intro j1 j2 u1 u2 hne hu1 hu2 hge
  have l1 := lt_length_of_getElem? hu1
  have l2 := lt_length_of_getElem? hu2
  rw [g3] at l1 l2
  have hv1 := List.getElem?_eq_getElem l1
  have hv2 := List.getElem?_eq_getElem l2
  have b1 := hwf _ (List.getElem_mem l1)
  have b2 := hwf _ (List.getElem_mem l2)
  by_cases f1 : w.vertices[j1].gidx ∈ fixed
  · have e1 := (g4 j1 _ hv1).1 f1
    rw [hu1] at e1; cases e1
    by_cases f2 : w.vertices[j2].gidx ∈ fixed
    · have e2 := (g4 j2 _ hv2).1 f2
      rw [hu2] at e2; cases e2
      exact hf j1 j2 _ _ hne hv1 hv2 hge
    · obtain ⟨_, id, _, hb, hc, _, _⟩ := (g4 j2 _ hv2).2 f2
      rw [hu2] at hb; cases hb
      simp only; omega
  · obtain ⟨_, id1, _, hb1, hc1, _, _⟩ := (g4 j1 _ hv1).2 f1
    by_cases f2 : w.vertices[j2].gidx ∈ fixed
    · have e2 := (g4 j2 _ hv2).1 f2
      rw [hu2] at e2; cases e2
      rw [hu1] at hb1; cases hb1
      simp only; omega
    · exact g5 j1 j2 _ _ u1 u2 hne hv1 hv2 f1 f2 hu1 hu2

section numopt
variable [ScalarF E]

/-! ### 1. one iteration: assembling pass, `dx = spsolve(…)`, update loop -/

/-- **One iteration of `optimize` on a graph with numerically differentiated edges** (graph.py:454-506: the assembling
    pass `assembleNumObj`, then `optimizeStepObj` with the increment `dxv`), for every world with live vertex references
    (any aliasing).  `ks := touchedBy w.edges nes` are the vertex positions of the numerically differentiated edges.
    * every object that existed before is bit-identical (`Ext`); edges untouched; vertex records differ at most in `pose`;
    * a vertex whose gradient index is FIXED and whose object held `p` now holds `touchP L ks j p`
      (= `(copy ∘ copy)^[#occurrences] p`; `= p` when `copy p = p`: `touchP_of_fix`), in the same object iff
      `touchN L ks j p = 0` (no incident numerically differentiated edge, or `COMPACT_DIMENSIONALITY = 0`), otherwise in
      an object allocated by the call;
    * a FREE vertex is bound to an object allocated by the call that holds `touchP L ks j p ⊞ dx[g : g + c]`, where `p` is
      what its object held before the iteration;
    * an object allocated by the call is bound to at most one vertex. -/
theorem numIterObj_spec (L : PoseLib P E) (hcc : ∀ p, L.cdim (L.copy p) = L.cdim p) (nes : List (NumEdge P E)) (eps : E)
    (fixed : List Nat) (dxv : Seg E) (w w1 w2 : World P E) (hwf : VWF w)
    (h1 : assembleNumObj L nes eps w = some w1) (h2 : optimizeStepObj L fixed dxv w1 = some w2) :
    Ext w.heap w2.heap ∧ w2.edges = w.edges ∧ VWF w2 ∧ w2.vertices.length = w.vertices.length ∧
    (∀ (j : Nat) (v : VertexO), w.vertices[j]? = some v →
      (v.gidx ∈ fixed → ∃ id, w2.vertices[j]? = some { v with pose := id } ∧
        (id = v.pose ∨ (w.heap.size ≤ id ∧ id < w2.heap.size)) ∧ (j ∉ touchedBy w.edges nes → id = v.pose) ∧
        ∀ p, poseOf w.heap v.pose = some p →
          poseOf w2.heap id = some (touchP L (touchedBy w.edges nes) j p) ∧
          (touchN L (touchedBy w.edges nes) j p = 0 → id = v.pose) ∧
          (0 < touchN L (touchedBy w.edges nes) j p → w.heap.size ≤ id)) ∧
      (v.gidx ∉ fixed → ∃ p id, poseOf w.heap v.pose = some p ∧ w2.vertices[j]? = some { v with pose := id } ∧
        w.heap.size ≤ id ∧ id < w2.heap.size ∧
        poseOf w2.heap id = some (L.boxplus (touchP L (touchedBy w.edges nes) j p) (fun t => dxv.get (v.gidx + t))))) ∧
    Fresh w.heap.size w2.vertices := by
  have t := assembleNumObj_touched L hcc nes eps w w1 hwf h1
  have hwf1 := t.vwf hwf
  obtain ⟨g1, g2, g3, g4, _⟩ := optimizeStepObj_spec L fixed dxv w1 w2 hwf1 h2
  have hwf2 := optimizeStepObj_vwf L fixed dxv w1 w2 hwf1 h2
  refine ⟨t.heap.trans g1, g2.trans t.edges, hwf2, g3.trans t.len, fun j v hv => ⟨fun hf => ?_, fun hf => ?_⟩, ?_⟩
  · obtain ⟨id, hid, c, nn, pp⟩ := t.vert j v hv
    have hrec := (g4 j _ hid).1 hf
    refine ⟨id, hrec, ?_, nn, fun p hp => ?_⟩
    · rcases c with c | ⟨c1, c2, _⟩
      · exact Or.inl c
      · exact Or.inr ⟨c1, by have := g1.1; omega⟩
    · obtain ⟨q1, q2, q3⟩ := pp p hp
      exact ⟨posePres_of_ext g1 _ _ q1, q2, q3⟩
  · obtain ⟨id1, hid1, c, _, pp⟩ := t.vert j v hv
    obtain ⟨p', id, hp', hb, hc, hd, he⟩ := (g4 j _ hid1).2 hf
    have hp : ∃ p, poseOf w.heap v.pose = some p := by
      rcases c with c | ⟨_, _, c3⟩
      · simp only [c] at hp'
        rw [t.heap.poseOf (hwf v (List.mem_of_getElem? hv))] at hp'
        exact ⟨p', hp'⟩
      · exact c3
    obtain ⟨p, hp⟩ := hp
    obtain ⟨q1, _, _⟩ := pp p hp
    simp only at hp'
    rw [q1] at hp'; cases hp'
    exact ⟨p, id, hp, hb, by have := t.heap.1; omega, hd, he⟩
  · exact optimizeStepObj_fresh L fixed dxv w1 w2 hwf1 h2 _ t.fresh

/-! ### any number of iterations -/

/-- **`iters` iterations**, any solver behaviour.  Per vertex `j` (record `v` before, object content `p`): the record after
    differs at most in `pose`; a vertex with a fixed gradient index (every vertex, when no iteration runs) holds
    `(copy ∘ copy)^[iters · touchN] p`, in the same object iff `iters · touchN = 0`; a free vertex holds, after at least one
    iteration, an object allocated by the call; objects allocated by the call are not shared. -/
theorem optimizeItersNumObj_spec (L : PoseLib P E) (hcc : ∀ p, L.cdim (L.copy p) = L.cdim p) (nes : List (NumEdge P E))
    (eps : E) (fixed : List Nat) (solve : Nat → GraphView P E → Seg E) :
    ∀ (n i : Nat) (w w' : World P E), optimizeItersNumObj L nes eps fixed solve n i w = some w' → VWF w →
      Ext w.heap w'.heap ∧ w'.edges = w.edges ∧ VWF w' ∧ w'.vertices.length = w.vertices.length ∧
      (∀ (j : Nat) (v : VertexO), w.vertices[j]? = some v → ∃ id, w'.vertices[j]? = some { v with pose := id } ∧
        (id = v.pose ∨ (w.heap.size ≤ id ∧ id < w'.heap.size)) ∧ (n = 0 → id = v.pose) ∧
        (v.gidx ∈ fixed ∨ n = 0 → (j ∉ touchedBy w.edges nes → id = v.pose) ∧
          ∀ p, poseOf w.heap v.pose = some p →
            poseOf w'.heap id = some (Nat.repeat (cc L) (n * touchN L (touchedBy w.edges nes) j p) p) ∧
            (n * touchN L (touchedBy w.edges nes) j p = 0 → id = v.pose) ∧
            (0 < n * touchN L (touchedBy w.edges nes) j p → w.heap.size ≤ id)) ∧
        (v.gidx ∉ fixed → 0 < n → w.heap.size ≤ id)) ∧
      Fresh w.heap.size w'.vertices := by
  intro n
  induction n with
  | zero =>
    intro i w w' h hwf
    simp only [optimizeItersNumObj] at h
    cases h
    refine ⟨Ext.refl _, rfl, hwf, rfl, fun j v hv => ⟨v.pose, hv, Or.inl rfl, fun _ => rfl, fun _ => ⟨fun _ => rfl,
      fun p hp => ⟨by rw [Nat.zero_mul]; exact hp, fun _ => rfl, fun hh => by omega⟩⟩, fun _ hh => by omega⟩, fresh_of_vwf hwf⟩
  | succ n ih =>
    intro i w w' h hwf
    simp only [optimizeItersNumObj] at h
    obtain ⟨w1, h1, h'⟩ := Option.bind_eq_some_iff.1 h
    obtain ⟨w2, h2, h3⟩ := Option.bind_eq_some_iff.1 h'
    obtain ⟨a1, a2, a3, a4, a5, a6⟩ := numIterObj_spec L hcc nes eps fixed _ w w1 w2 hwf h1 h2
    obtain ⟨b1, b2, b3, b4, b5, b6⟩ := ih (i + 1) w2 w' h3 a3
    rw [a2] at b5
    -- the record after the first iteration
    have hmid : ∀ (j : Nat) (v : VertexO), w.vertices[j]? = some v → ∃ id2, w2.vertices[j]? = some { v with pose := id2 } ∧
        (id2 = v.pose ∨ (w.heap.size ≤ id2 ∧ id2 < w2.heap.size)) := by
      intro j v hv
      by_cases hf : v.gidx ∈ fixed
      · obtain ⟨id2, r, c, _⟩ := (a5 j v hv).1 hf; exact ⟨id2, r, c⟩
      · obtain ⟨_, id2, _, r, c1, c2, _⟩ := (a5 j v hv).2 hf; exact ⟨id2, r, Or.inr ⟨c1, c2⟩⟩
    have hs12 := a1.1
    have hs23 := b1.1
    refine ⟨a1.trans b1, b2.trans a2, b3, b4.trans a4, fun j v hv => ?_, ?_⟩
    · obtain ⟨id2, r2, c2⟩ := hmid j v hv
      obtain ⟨id, r, c, _, cf, cn⟩ := b5 j _ r2
      have hvlt := hwf v (List.mem_of_getElem? hv)
      have hle : id2 = v.pose ∨ w.heap.size ≤ id2 := by rcases c2 with c2 | c2; exact Or.inl c2; exact Or.inr c2.1
      have hle' : id = id2 ∨ w.heap.size ≤ id := by
        rcases c with c | c
        · exact Or.inl c
        · exact Or.inr (by omega)
      refine ⟨id, r, ?_, fun hh => by omega, fun hfx => ?_, fun hf _ => ?_⟩
      · rcases c with c | c
        · simp only at c
          rcases c2 with c2 | c2
          · exact Or.inl (c.trans c2)
          · exact Or.inr ⟨by omega, by omega⟩
        · exact Or.inr ⟨by omega, c.2⟩
      · have hf : v.gidx ∈ fixed := by rcases hfx with hfx | hfx; exact hfx; omega
        obtain ⟨id2', r2', _, n2, p2⟩ := (a5 j v hv).1 hf
        rw [r2] at r2'; cases r2'
        obtain ⟨n3, p3⟩ := cf (Or.inl hf)
        refine ⟨fun hj => by rw [n3 hj]; exact n2 hj, fun p hp => ?_⟩
        obtain ⟨q1, q2, q3⟩ := p2 p hp
        obtain ⟨s1, s2, s3⟩ := p3 _ q1
        rw [touchN_touchP L hcc] at s1 s2 s3
        have hmul : (n + 1) * touchN L (touchedBy w.edges nes) j p
            = touchN L (touchedBy w.edges nes) j p + n * touchN L (touchedBy w.edges nes) j p := by
          rw [Nat.succ_mul, Nat.add_comm]
        rw [hmul]
        refine ⟨?_, fun hz => ?_, fun hpos => ?_⟩
        · rw [← repeat_add]; exact s1
        · rw [s2 (by omega)]; exact q2 (by omega)
        · by_cases h0 : 0 < touchN L (touchedBy w.edges nes) j p
          · have := q3 h0
            rcases hle' with e | e
            · omega
            · exact e
          · have hz : touchN L (touchedBy w.edges nes) j p = 0 := by omega
            rw [hz] at hpos; omega
      · obtain ⟨_, id2', _, r2', c1, _, _⟩ := (a5 j v hv).2 hf
        rw [r2] at r2'; cases r2'
        rcases hle' with e | e
        · omega
        · exact e
    · refine Fresh.trans a6 b6 b4 a3 (fun j v hv => ?_)
      obtain ⟨id, r, c, _⟩ := b5 j v hv
      refine ⟨id, r, ?_⟩
      rcases c with c | c
      · exact Or.inl c
      · exact Or.inr c.1

/-! ### the whole call -/

/-- the number of assembling passes (`_calc_chi2_gradient_hessian()` calls) of an `optimize` call that performs `iters`
    updates: one per update, plus the pass of the iteration that only detects convergence (`extra`) -/
def numPasses (iters : Nat) (extra : Bool) : Nat := iters + (if extra then 1 else 0)

omit [ScalarF E] in
theorem touchN_repeat (L : PoseLib P E) (hcc : ∀ p, L.cdim (L.copy p) = L.cdim p) (ks : List Nat) (j m : Nat) (p : P) :
    touchN L ks j (Nat.repeat (cc L) m p) = touchN L ks j p := by
  unfold touchN; rw [cdim_repeat L hcc]

omit [ScalarF E] in
theorem touchN_extra (L : PoseLib P E) (ks : List Nat) (extra : Bool) (j : Nat) (p : P) :
    touchN L (if extra then ks else []) j p = (if extra then 1 else 0) * touchN L ks j p := by
  cases extra <;> simp [touchN_nil]

omit [ScalarF E] in
theorem fixFirst_vwf (ffp : Bool) (w w1 : World P E) (h : fixFirst ffp w = some w1) (hwf : VWF w) : VWF w1 := by
  obtain ⟨f1, _, f3, _, _, f6⟩ := fixFirst_spec ffp w w1 h
  intro u hu
  obtain ⟨j, hj⟩ := List.getElem?_of_mem hu
  have hlt := lt_length_of_getElem? hj
  rw [f3] at hlt
  obtain ⟨b, hb⟩ := f6 j _ (List.getElem?_eq_getElem hlt)
  rw [hb] at hj; cases hj
  rw [f1]; exact hwf w.vertices[j] (List.getElem_mem hlt)

/-- **The repaired `optimize()`: what it changes, and what it does not** — for every world with live vertex references
    (any aliasing), any set `nes` of numerically differentiated edges, any solver behaviour, any number `iters` of updates,
    with (`extra`) or without the closing convergence-detecting pass.  `fixed` is the set of graph.py:442,
    `ks := touchedBy w.edges nes` the vertex positions of the numerically differentiated edges,
    `numPasses iters extra` the number of assembling passes.
    * every object that existed before the call is bit-identical (`Ext`); edges hold the same references; ids and
      gradient indices are the same; the flags are the old ones with the first set when `fix_first_pose`;
    * a vertex keeps its object or is bound to an object allocated by the call; with no assembling pass nothing is re-bound;
    * a vertex with a FIXED gradient index whose object held `p` holds `(copy ∘ copy)^[numPasses · touchN] p` afterwards
      (`= p` when `copy p = p`: `optimizeNumObj_fixed_same_content`); it is bound to the SAME object iff
      `numPasses · touchN = 0` — no pass ran, or no numerically differentiated edge is incident (`touchN_pos_iff`), or
      `COMPACT_DIMENSIONALITY = 0` — and otherwise to an object allocated by the call;
    * a FREE vertex is bound, when at least one update ran, to an object allocated by the call (its content: per iteration
      `numIterObj_spec`, composed `optimizeNumObj_refines`);
    * an object allocated by the call is bound to at most one vertex (`Fresh`). -/
theorem optimizeNumObj_frame (L : PoseLib P E) (hcc : ∀ p, L.cdim (L.copy p) = L.cdim p) (nes : List (NumEdge P E)) (eps : E)
    (solve : Nat → GraphView P E → Seg E) (ffp : Bool) (iters : Nat) (extra : Bool) (w w' : World P E) (hwf : VWF w)
    (h : optimizeNumObj L nes eps solve ffp iters extra w = some w') (fixed : List Nat)
    (hfixed : fixed = fixedIndices (applyFixFirst ffp (w.vertices.map (·.fixed))) (w.vertices.map (·.gidx))) :
    Ext w.heap w'.heap ∧ w'.edges = w.edges ∧ VWF w' ∧ w'.vertices.length = w.vertices.length ∧
    w'.vertices.map (·.fixed) = applyFixFirst ffp (w.vertices.map (·.fixed)) ∧
    (∀ (j : Nat) (v : VertexO), w.vertices[j]? = some v → ∃ u : VertexO, w'.vertices[j]? = some u ∧ u.id = v.id ∧
      u.gidx = v.gidx ∧ (u.pose = v.pose ∨ (w.heap.size ≤ u.pose ∧ u.pose < w'.heap.size)) ∧
      (numPasses iters extra = 0 → u.pose = v.pose) ∧
      (v.gidx ∈ fixed ∨ iters = 0 → (j ∉ touchedBy w.edges nes → u.pose = v.pose) ∧
        ∀ p, poseOf w.heap v.pose = some p →
          poseOf w'.heap u.pose
            = some (Nat.repeat (cc L) (numPasses iters extra * touchN L (touchedBy w.edges nes) j p) p) ∧
          (numPasses iters extra * touchN L (touchedBy w.edges nes) j p = 0 → u.pose = v.pose) ∧
          (0 < numPasses iters extra * touchN L (touchedBy w.edges nes) j p → w.heap.size ≤ u.pose)) ∧
      (v.gidx ∉ fixed → 0 < iters → w.heap.size ≤ u.pose)) ∧
    Fresh w.heap.size w'.vertices := by
  have hflags := (optimizeNumObj_ext L nes eps solve ffp iters extra w w' h).2.2.2
  unfold optimizeNumObj at h
  obtain ⟨w1, h1, h'⟩ := Option.bind_eq_some_iff.1 h
  obtain ⟨w2, h2, h3⟩ := Option.bind_eq_some_iff.1 h'
  obtain ⟨f1, f2, f3, f4, f5, f6⟩ := fixFirst_spec ffp w w1 h1
  have hfix1 : fixedIdx w1 = fixed := by rw [fixedIdx_eq, f4, f5, hfixed]
  rw [hfix1] at h2
  have hwf1 : VWF w1 := fixFirst_vwf ffp w w1 h1 hwf
  obtain ⟨b1, b2, b3, b4, b5, b6⟩ := optimizeItersNumObj_spec L hcc nes eps fixed solve iters 0 w1 w2 h2 hwf1
  have t : Touched L (if extra then touchedBy w.edges nes else []) w2 w' := by
    cases extra with
    | false =>
      simp only [Bool.false_eq_true, if_false] at h3 ⊢
      cases h3
      exact Touched.refl L b3
    | true =>
      simp only [if_true] at h3 ⊢
      have := assembleNumObj_touched L hcc nes eps w2 w' b3 h3
      rwa [b2, f2] at this
  have hs1 : w1.heap.size = w.heap.size := by rw [f1]
  have hs12 := b1.1
  have hs23 := t.heap.1
  refine ⟨by rw [← f1]; exact b1.trans t.heap, (t.edges.trans b2).trans f2, t.vwf b3, (t.len.trans b4).trans f3, hflags,
    fun j v hv => ?_, ?_⟩
  · obtain ⟨b, hb⟩ := f6 j v hv
    obtain ⟨id2, r2, c2, z2, cf2, cn2⟩ := b5 j _ hb
    obtain ⟨id, r, c, nn, pp⟩ := t.vert j _ r2
    rw [f1, f2] at cf2
    simp only at c2 z2 cf2 cn2 c nn pp
    have hle' : id = id2 ∨ w.heap.size ≤ id := by
      rcases c with c | c
      · exact Or.inl c
      · exact Or.inr (by omega)
    refine ⟨_, r, rfl, rfl, ?_, fun hz => ?_, fun hfx => ?_, fun hf hpos => ?_⟩
    · show id = v.pose ∨ (w.heap.size ≤ id ∧ id < w'.heap.size)
      rcases c with c | c
      · rcases c2 with c2 | c2
        · exact Or.inl (c.trans c2)
        · exact Or.inr ⟨by omega, by omega⟩
      · exact Or.inr ⟨by omega, c.2.1⟩
    · show id = v.pose
      have hi : iters = 0 := by unfold numPasses at hz; omega
      have he : extra = false := by
        cases extra with
        | false => rfl
        | true => unfold numPasses at hz; simp at hz
      subst he
      rw [nn (by simp)]; exact z2 hi
    · obtain ⟨n2, p2⟩ := cf2 hfx
      refine ⟨fun hj => ?_, fun p hp => ?_⟩
      · show id = v.pose
        have : j ∉ (if extra then touchedBy w.edges nes else []) := by
          cases extra with
          | false => simp
          | true => simpa using hj
        rw [nn this]; exact n2 hj
      · obtain ⟨q1, q2, q3⟩ := p2 p hp
        obtain ⟨s1, s2, s3⟩ := pp _ q1
        unfold touchP at s1
        rw [touchN_repeat L hcc, touchN_extra] at s1 s2 s3
        rw [repeat_add] at s1
        have hmul : numPasses iters extra * touchN L (touchedBy w.edges nes) j p
            = iters * touchN L (touchedBy w.edges nes) j p + (if extra then 1 else 0) * touchN L (touchedBy w.edges nes) j p := by
          unfold numPasses; rw [Nat.add_mul]
        rw [hmul]
        refine ⟨s1, fun hz => ?_, fun hpos => ?_⟩
        · show id = v.pose
          rw [s2 (by omega)]; exact q2 (by omega)
        · show w.heap.size ≤ id
          by_cases h0 : 0 < iters * touchN L (touchedBy w.edges nes) j p
          · have := q3 h0
            rcases hle' with e | e
            · omega
            · exact e
          · have := s3 (by omega); omega
    · show w.heap.size ≤ id
      have := cn2 hf hpos
      rcases hle' with e | e
      · omega
      · exact e
  · have := Fresh.trans b6 t.fresh t.len b3 (fun j v hv => by
      obtain ⟨id, r, c, _⟩ := t.vert j v hv
      refine ⟨id, r, ?_⟩
      rcases c with c | c
      · exact Or.inl c
      · exact Or.inr c.1)
    rwa [hs1] at this

/-! ### 4. fixed ⇒ same content -/

omit [ScalarF E] in
/-- a vertex whose `fixed` flag is set when the iterations start (its own flag, or the first vertex under
    `fix_first_pose=True`) has its gradient index in the fixed set of graph.py:442 -/
theorem mem_fixed_of_flag (ffp : Bool) (w : World P E) (j : Nat) (v : VertexO) (hv : w.vertices[j]? = some v)
    (hflag : v.fixed = true ∨ (ffp = true ∧ j = 0)) :
    v.gidx ∈ fixedIndices (applyFixFirst ffp (w.vertices.map (·.fixed))) (w.vertices.map (·.gidx)) := by
  rw [GraphSlam.Props.C06.mem_fixedIndices]
  refine ⟨j, ?_, by simp [hv]⟩
  rw [GraphSlam.Props.C06.fix_first_pose_flags]
  rcases hflag with hf | ⟨hf, hj⟩
  · simp [hv, hf]
  · have hne : List.map (·.fixed) w.vertices ≠ [] := by
      intro hh
      have := List.map_eq_nil_iff.1 hh
      rw [this] at hv; simp at hv
    simp [hf, hj, hne]

omit [ScalarF E] in
theorem repeat_cc_of_idem (L : PoseLib P E) (hidem : ∀ p, L.copy (L.copy p) = L.copy p) (m : Nat) (p : P) :
    Nat.repeat (cc L) m p = if m = 0 then p else L.copy p := by
  induction m with
  | zero => rfl
  | succ m ih =>
    show cc L (Nat.repeat (cc L) m p) = _
    rw [ih]
    by_cases hm : m = 0
    · simp [hm, cc, hidem]
    · simp [hm, cc, hidem]

/-- **Fixed ⇒ same content (what replaces `optimizeObj_fixed_same_object` on graphs with numerically differentiated
    edges).**  A vertex whose `fixed` flag is set when the iterations start (its own flag, or the first vertex under
    `fix_first_pose=True`) and whose pose object held `p` with `copy p = p` (all four library classes; SE(2): in-range
    angle, `typedLib_copy_real`) is bound, after `optimize()`, to an object holding exactly `p` — the same `Obj` value,
    bit for bit at the model level; id and gradient index are unchanged.  The OBJECT is the same one iff no assembling
    pass ran, or the vertex has no incident numerically differentiated edge, or `COMPACT_DIMENSIONALITY = 0`; otherwise
    it is an object allocated by the call (so `is` / `id()` observe a change while `==` does not). -/
theorem optimizeNumObj_fixed_same_content (L : PoseLib P E) (hcc : ∀ p, L.cdim (L.copy p) = L.cdim p)
    (nes : List (NumEdge P E)) (eps : E) (solve : Nat → GraphView P E → Seg E) (ffp : Bool) (iters : Nat) (extra : Bool)
    (w w' : World P E) (hwf : VWF w) (h : optimizeNumObj L nes eps solve ffp iters extra w = some w') (j : Nat)
    (v u : VertexO) (hv : w.vertices[j]? = some v) (hu : w'.vertices[j]? = some u)
    (hflag : v.fixed = true ∨ (ffp = true ∧ j = 0)) (p : P) (hp : poseOf w.heap v.pose = some p) (hcopy : L.copy p = p) :
    u.id = v.id ∧ u.gidx = v.gidx ∧ poseOf w'.heap u.pose = some p ∧ w'.heap.get? u.pose = w.heap.get? v.pose ∧
    (j ∉ touchedBy w.edges nes ∨ L.cdim p = 0 ∨ numPasses iters extra = 0 → u.pose = v.pose) ∧
    (j ∈ touchedBy w.edges nes → 0 < L.cdim p → 0 < numPasses iters extra →
      w.heap.size ≤ u.pose ∧ u.pose < w'.heap.size ∧ u.pose ≠ v.pose) := by
  obtain ⟨_, _, _, _, _, hper, _⟩ := optimizeNumObj_frame L hcc nes eps solve ffp iters extra w w' hwf h _ rfl
  obtain ⟨u', hu', hid, hg, hdisj, _, hfix, _⟩ := hper j v hv
  rw [hu] at hu'; cases hu'
  obtain ⟨_, hcont⟩ := hfix (Or.inl (mem_fixed_of_flag ffp w j v hv hflag))
  obtain ⟨q1, q2, q3⟩ := hcont p hp
  rw [repeat_fix _ _ (by unfold cc; rw [hcopy, hcopy])] at q1
  have hvlt := hwf v (List.mem_of_getElem? hv)
  refine ⟨hid, hg, q1, by rw [poseOf_eq_some.1 q1, poseOf_eq_some.1 hp], fun hc => q2 ?_, fun h1 h2 h3 => ?_⟩
  · rcases hc with hc | hc | hc
    · rw [touchN_of_not_mem L hc]; rfl
    · simp [touchN, hc]
    · rw [hc]; exact Nat.zero_mul _
  · have hpos : 0 < numPasses iters extra * touchN L (touchedBy w.edges nes) j p :=
      Nat.mul_pos h3 ((touchN_pos_iff L _ j p).2 ⟨h1, h2⟩)
    have := q3 hpos
    refine ⟨this, ?_, by omega⟩
    rcases hdisj with e | e
    · omega
    · exact e.2

/-- … and without any hypothesis on the content, for an idempotent `copy` (the library's: `typedLib_copy_idem_real`) — the
    exact statement for an SE(2) pose with an out-of-range angle: a fixed vertex that is touched by a numerically
    differentiated edge in at least one assembling pass ends with `copy p` (the angle wrapped), any other with `p`. -/
theorem optimizeNumObj_fixed_content_idem (L : PoseLib P E) (hcc : ∀ p, L.cdim (L.copy p) = L.cdim p)
    (hidem : ∀ p, L.copy (L.copy p) = L.copy p)
    (nes : List (NumEdge P E)) (eps : E) (solve : Nat → GraphView P E → Seg E) (ffp : Bool) (iters : Nat) (extra : Bool)
    (w w' : World P E) (hwf : VWF w) (h : optimizeNumObj L nes eps solve ffp iters extra w = some w') (j : Nat)
    (v u : VertexO) (hv : w.vertices[j]? = some v) (hu : w'.vertices[j]? = some u)
    (hflag : v.fixed = true ∨ (ffp = true ∧ j = 0)) (p : P) (hp : poseOf w.heap v.pose = some p) :
    poseOf w'.heap u.pose
      = some (if j ∈ touchedBy w.edges nes ∧ 0 < L.cdim p ∧ 0 < numPasses iters extra then L.copy p else p) := by
  obtain ⟨_, _, _, _, _, hper, _⟩ := optimizeNumObj_frame L hcc nes eps solve ffp iters extra w w' hwf h _ rfl
  obtain ⟨u', hu', _, _, _, _, hfix, _⟩ := hper j v hv
  rw [hu] at hu'; cases hu'
  obtain ⟨_, hcont⟩ := hfix (Or.inl (mem_fixed_of_flag ffp w j v hv hflag))
  obtain ⟨q1, _, _⟩ := hcont p hp
  rw [q1, repeat_cc_of_idem L hidem]
  by_cases hc : j ∈ touchedBy w.edges nes ∧ 0 < L.cdim p ∧ 0 < numPasses iters extra
  · have hpos : 0 < numPasses iters extra * touchN L (touchedBy w.edges nes) j p :=
      Nat.mul_pos hc.2.2 ((touchN_pos_iff L _ j p).2 ⟨hc.1, hc.2.1⟩)
    rw [if_neg (by omega), if_pos hc]
  · have hz : numPasses iters extra * touchN L (touchedBy w.edges nes) j p = 0 := by
      by_cases h3 : 0 < numPasses iters extra
      · have : ¬ 0 < touchN L (touchedBy w.edges nes) j p := by
          rw [touchN_pos_iff]; intro hh; exact hc ⟨hh.1, hh.2, h3⟩
        have hz : touchN L (touchedBy w.edges nes) j p = 0 := by omega
        rw [hz]; rfl
      · have hz : numPasses iters extra = 0 := by omega
        rw [hz]; exact Nat.zero_mul _
    rw [if_pos hz, if_neg hc]

/-! ### 2. no double update under aliasing -/

/-- **No double update through a shared object (one iteration on a graph with numerically differentiated edges).**  Two
    free vertices that held ONE pose object `o` (entries `c`) before the iteration hold two different objects after it,
    both allocated by the call, with entries `c' ⊞ dx[g₁ : …]` and `c' ⊞ dx[g₂ : …]` where `c' = touchP … c` (`= c` when
    `copy c = c`: `numIterObj_shared_fix`) — each updated once, from the common old value, although in between the
    numerical differentiation may have re-bound each of them — and `o` itself still has the entries `c`. -/
theorem numIterObj_shared (L : PoseLib P E) (hcc : ∀ p, L.cdim (L.copy p) = L.cdim p) (nes : List (NumEdge P E)) (eps : E)
    (fixed : List Nat) (dxv : Seg E) (w w1 w2 : World P E) (hwf : VWF w)
    (h1 : assembleNumObj L nes eps w = some w1) (h2 : optimizeStepObj L fixed dxv w1 = some w2)
    (j1 j2 : Nat) (v1 v2 : VertexO) (c : P) (hne : j1 ≠ j2)
    (hv1 : w.vertices[j1]? = some v1) (hv2 : w.vertices[j2]? = some v2) (hshare : v1.pose = v2.pose)
    (hc : poseOf w.heap v1.pose = some c) (hf1 : v1.gidx ∉ fixed) (hf2 : v2.gidx ∉ fixed) :
    ∃ id1 id2, w2.vertices[j1]? = some { v1 with pose := id1 } ∧ w2.vertices[j2]? = some { v2 with pose := id2 } ∧
      id1 ≠ id2 ∧ id1 ≠ v1.pose ∧ id2 ≠ v1.pose ∧
      poseOf w2.heap id1 = some (L.boxplus (touchP L (touchedBy w.edges nes) j1 c) (fun t => dxv.get (v1.gidx + t))) ∧
      poseOf w2.heap id2 = some (L.boxplus (touchP L (touchedBy w.edges nes) j2 c) (fun t => dxv.get (v2.gidx + t))) ∧
      poseOf w2.heap v1.pose = some c := by
  obtain ⟨g1, _, _, _, g5, g6⟩ := numIterObj_spec L hcc nes eps fixed dxv w w1 w2 hwf h1 h2
  obtain ⟨p1, id1, hp1, hb1, hc1, _, he1⟩ := (g5 j1 v1 hv1).2 hf1
  obtain ⟨p2, id2, hp2, hb2, hc2, _, he2⟩ := (g5 j2 v2 hv2).2 hf2
  rw [hc] at hp1; cases hp1
  rw [← hshare, hc] at hp2; cases hp2
  have hlt := poseOf_lt hc
  refine ⟨id1, id2, hb1, hb2, ?_, by omega, by omega, he1, he2, ?_⟩
  · have := g6 j1 j2 _ _ hne hb1 hb2 hc1
    simpa using this
  · rw [g1.poseOf hlt]; exact hc

/-- the same with `copy c = c`: exactly the conclusion of `optimizeStepObj_shared` -/
theorem numIterObj_shared_fix (L : PoseLib P E) (hcc : ∀ p, L.cdim (L.copy p) = L.cdim p) (nes : List (NumEdge P E)) (eps : E)
    (fixed : List Nat) (dxv : Seg E) (w w1 w2 : World P E) (hwf : VWF w)
    (h1 : assembleNumObj L nes eps w = some w1) (h2 : optimizeStepObj L fixed dxv w1 = some w2)
    (j1 j2 : Nat) (v1 v2 : VertexO) (c : P) (hne : j1 ≠ j2)
    (hv1 : w.vertices[j1]? = some v1) (hv2 : w.vertices[j2]? = some v2) (hshare : v1.pose = v2.pose)
    (hc : poseOf w.heap v1.pose = some c) (hf1 : v1.gidx ∉ fixed) (hf2 : v2.gidx ∉ fixed) (hcopy : L.copy c = c) :
    ∃ id1 id2, w2.vertices[j1]? = some { v1 with pose := id1 } ∧ w2.vertices[j2]? = some { v2 with pose := id2 } ∧
      id1 ≠ id2 ∧ id1 ≠ v1.pose ∧ id2 ≠ v1.pose ∧
      poseOf w2.heap id1 = some (L.boxplus c (fun t => dxv.get (v1.gidx + t))) ∧
      poseOf w2.heap id2 = some (L.boxplus c (fun t => dxv.get (v2.gidx + t))) ∧
      poseOf w2.heap v1.pose = some c := by
  have := numIterObj_shared L hcc nes eps fixed dxv w w1 w2 hwf h1 h2 j1 j2 v1 v2 c hne hv1 hv2 hshare hc hf1 hf2
  rwa [touchP_of_fix L _ j1 c hcopy, touchP_of_fix L _ j2 c hcopy] at this

/-- **After the whole call no two vertices share an object they did not share before**: if two different vertices are
    bound to one object after `optimize()`, both are still bound to the object they were bound to before (so they shared
    it before, and neither was re-bound).  Every re-binding — by the update loop or by numerical differentiation — goes to
    an object of its own. -/
theorem optimizeNumObj_no_new_sharing (L : PoseLib P E) (hcc : ∀ p, L.cdim (L.copy p) = L.cdim p) (nes : List (NumEdge P E))
    (eps : E) (solve : Nat → GraphView P E → Seg E) (ffp : Bool) (iters : Nat) (extra : Bool) (w w' : World P E) (hwf : VWF w)
    (h : optimizeNumObj L nes eps solve ffp iters extra w = some w') (j1 j2 : Nat) (v1 v2 u1 u2 : VertexO) (hne : j1 ≠ j2)
    (hv1 : w.vertices[j1]? = some v1) (hv2 : w.vertices[j2]? = some v2)
    (hu1 : w'.vertices[j1]? = some u1) (hu2 : w'.vertices[j2]? = some u2) (hs : u1.pose = u2.pose) :
    u1.pose = v1.pose ∧ u2.pose = v2.pose := by
  obtain ⟨_, _, _, _, _, hper, hfresh⟩ := optimizeNumObj_frame L hcc nes eps solve ffp iters extra w w' hwf h _ rfl
  obtain ⟨u1', hu1', _, _, d1, _⟩ := hper j1 v1 hv1
  obtain ⟨u2', hu2', _, _, d2, _⟩ := hper j2 v2 hv2
  rw [hu1] at hu1'; cases hu1'
  rw [hu2] at hu2'; cases hu2'
  constructor
  · rcases d1 with e | e
    · exact e
    · exact absurd hs (hfresh j1 j2 u1 u2 hne hu1 hu2 e.1)
  · rcases d2 with e | e
    · exact e
    · exact absurd hs.symm (hfresh j2 j1 u2 u1 (Ne.symm hne) hu2 hu1 e.1)

/-- **No double update under aliasing, whole call.**  Two free vertices that shared one pose object `o` (entries `c`)
    before `optimize()` (at least one update) end with two different objects, both allocated by the call; `o` keeps its
    entries (an edge `estimate`, a fixed vertex or the caller still referring to `o` sees no change). -/
theorem optimizeNumObj_shared (L : PoseLib P E) (hcc : ∀ p, L.cdim (L.copy p) = L.cdim p) (nes : List (NumEdge P E))
    (eps : E) (solve : Nat → GraphView P E → Seg E) (ffp : Bool) (iters : Nat) (extra : Bool) (w w' : World P E) (hwf : VWF w)
    (h : optimizeNumObj L nes eps solve ffp iters extra w = some w') (fixed : List Nat)
    (hfixed : fixed = fixedIndices (applyFixFirst ffp (w.vertices.map (·.fixed))) (w.vertices.map (·.gidx)))
    (j1 j2 : Nat) (v1 v2 u1 u2 : VertexO) (c : P) (hne : j1 ≠ j2)
    (hv1 : w.vertices[j1]? = some v1) (hv2 : w.vertices[j2]? = some v2)
    (hu1 : w'.vertices[j1]? = some u1) (hu2 : w'.vertices[j2]? = some u2) (hshare : v1.pose = v2.pose)
    (hc : poseOf w.heap v1.pose = some c) (hf1 : v1.gidx ∉ fixed) (hf2 : v2.gidx ∉ fixed) (hpos : 0 < iters) :
    u1.pose ≠ u2.pose ∧ w.heap.size ≤ u1.pose ∧ w.heap.size ≤ u2.pose ∧ u1.pose ≠ v1.pose ∧ u2.pose ≠ v1.pose ∧
    poseOf w'.heap v1.pose = some c := by
  obtain ⟨g1, _, _, _, _, hper, hfresh⟩ := optimizeNumObj_frame L hcc nes eps solve ffp iters extra w w' hwf h fixed hfixed
  obtain ⟨u1', hu1', _, _, _, _, _, n1⟩ := hper j1 v1 hv1
  obtain ⟨u2', hu2', _, _, _, _, _, n2⟩ := hper j2 v2 hv2
  rw [hu1] at hu1'; cases hu1'
  rw [hu2] at hu2'; cases hu2'
  have a1 := n1 hf1 hpos
  have a2 := n2 hf2 hpos
  have hlt := poseOf_lt hc
  exact ⟨hfresh j1 j2 u1 u2 hne hu1 hu2 a1, a1, a2, by omega, by omega, by rw [g1.poseOf hlt]; exact hc⟩

/-! ### 3. refinement to the value-semantics models -/

/-- the value-level effect of the `_calc_jacobian`s at the positions `ks` on the optimiser state
    `(gradient_index, COMPACT_DIMENSIONALITY, entries)`: the entries of vertex `j` become `touchP L ks j ·` -/
def touchSt (L : PoseLib P E) (ks : List Nat) (st : List (Nat × Nat × P)) : List (Nat × Nat × P) :=
  st.mapIdx fun j x => (x.1, x.2.1, touchP L ks j x.2.2)

omit [ScalarF E] in
/-- … which is the identity on a state whose poses are fixed points of `copy` -/
theorem touchSt_of_fix (L : PoseLib P E) (ks : List Nat) (st : List (Nat × Nat × P)) (h : ∀ x ∈ st, L.copy x.2.2 = x.2.2) :
    touchSt L ks st = st := by
  apply List.ext_getElem?
  intro j
  simp only [touchSt, List.getElem?_mapIdx]
  cases hs : st[j]? with
  | none => rfl
  | some x => simp [touchP_of_fix L ks j x.2.2 (h x (List.mem_of_getElem? hs))]

omit [ScalarF E] in
/-- reading the world through its references commutes with the `_calc_jacobian`s -/
theorem Touched.refinesSt {L : PoseLib P E} (hcc : ∀ p, L.cdim (L.copy p) = L.cdim p) {ks : List Nat} {w w' : World P E}
    {st : List (Nat × Nat × P)} (t : Touched L ks w w') (r : RefinesSt L w st) : RefinesSt L w' (touchSt L ks st) := by
  unfold RefinesSt
  apply List.ext_getElem?
  intro j
  simp only [List.getElem?_map, touchSt, List.getElem?_mapIdx]
  cases hv : w.vertices[j]? with
  | none =>
    have hn : w'.vertices[j]? = none := by
      have := t.len
      rw [List.getElem?_eq_none_iff] at hv ⊢; omega
    have := r.getElem? j; rw [hv] at this
    cases hs : st[j]? with
    | none => rw [hn]; rfl
    | some x => rw [hs] at this; exact absurd this (by simp)
  | some v =>
    obtain ⟨p, hp, hs⟩ := r.vertex hv
    obtain ⟨id, hid, _, _, pp⟩ := t.vert j v hv
    obtain ⟨q1, _, _⟩ := pp p hp
    rw [hid, hs]
    simp [q1, cdim_touchP L hcc]

/-- **Refinement, one assembling pass, exact (no hypothesis on `copy`).** -/
theorem assembleNumObj_refines_exact (L : PoseLib P E) (hcc : ∀ p, L.cdim (L.copy p) = L.cdim p) (nes : List (NumEdge P E))
    (eps : E) (w w' : World P E) (st : List (Nat × Nat × P)) (r : RefinesSt L w st)
    (h : assembleNumObj L nes eps w = some w') : RefinesSt L w' (touchSt L (touchedBy w.edges nes) st) :=
  (assembleNumObj_touched L hcc nes eps w w' r.vwf h).refinesSt hcc r

/-- **The value-level model does not see the assembling pass**: when the poses in the store are fixed points of `copy`,
    the world after `_calc_chi2_gradient_hessian()` — with all the re-bindings the numerical differentiation made — reads
    exactly as before. -/
theorem assembleNumObj_refines (L : PoseLib P E) (hcc : ∀ p, L.cdim (L.copy p) = L.cdim p) (nes : List (NumEdge P E))
    (eps : E) (w w' : World P E) (st : List (Nat × Nat × P)) (r : RefinesSt L w st) (hfix : ∀ x ∈ st, L.copy x.2.2 = x.2.2)
    (h : assembleNumObj L nes eps w = some w') : RefinesSt L w' st := by
  have := assembleNumObj_refines_exact L hcc nes eps w w' st r h
  rwa [touchSt_of_fix L _ st hfix] at this

omit [ScalarF E] in
/-- the view is the same when every vertex is bound to an object with the same content and everything else is older -/
theorem view_eq_of_content {w w' : World P E} (hw : w.WF) (hh : Ext w.heap w'.heap) (he : w'.edges = w.edges)
    (hlen : w'.vertices.length = w.vertices.length)
    (hv : ∀ (j : Nat) (v : VertexO), w.vertices[j]? = some v →
      ∃ id, w'.vertices[j]? = some { v with pose := id } ∧ w'.heap.get? id = w.heap.get? v.pose) :
    w'.view = w.view := by
  unfold World.view
  rw [he]
  congr 1
  · apply List.ext_getElem?
    intro j
    simp only [List.getElem?_map]
    cases hvj : w.vertices[j]? with
    | none =>
      have : w'.vertices[j]? = none := by
        rw [List.getElem?_eq_none_iff] at hvj ⊢; omega
      rw [this]; rfl
    | some v =>
      obtain ⟨id, hid, hget⟩ := hv j v hvj
      rw [hid]
      simp [hget]
  · apply List.map_congr_left
    intro e hem
    obtain ⟨a, b, c⟩ := hw.2 e hem
    rw [hh.2 _ a, hh.2 _ b]
    cases ho : e.offset with
    | none => rfl
    | some o => simp [hh.2 o (c o ho)]

/-- **The solver is handed the same system**: on a well-formed world whose poses are fixed points of `copy`, everything the
    library can read after the assembling pass (`World.view`: what `solve i ·` is applied to in `optimizeItersNumObj`) is
    what it could read before — the re-bindings are invisible by value. -/
theorem assembleNumObj_view (L : PoseLib P E) (hcc : ∀ p, L.cdim (L.copy p) = L.cdim p) (nes : List (NumEdge P E))
    (eps : E) (w w' : World P E) (st : List (Nat × Nat × P)) (hw : w.WF) (r : RefinesSt L w st)
    (hfix : ∀ x ∈ st, L.copy x.2.2 = x.2.2) (h : assembleNumObj L nes eps w = some w') : w'.view = w.view := by
  have t := assembleNumObj_touched L hcc nes eps w w' r.vwf h
  refine view_eq_of_content hw t.heap t.edges t.len (fun j v hv => ?_)
  obtain ⟨p, hp, hs⟩ := r.vertex hv
  obtain ⟨id, hid, _, _, pp⟩ := t.vert j v hv
  obtain ⟨q1, _, _⟩ := pp p hp
  have hfp : L.copy p = p := hfix _ (List.mem_of_getElem? hs)
  rw [touchP_of_fix L _ j p hfp] at q1
  exact ⟨id, hid, by rw [poseOf_eq_some.1 q1, poseOf_eq_some.1 hp]⟩

/-- **Refinement, one iteration, exact**: assembling pass + update = `Model.applyDx` after `touchSt` -/
theorem numIterObj_refines_exact (L : PoseLib P E) (hcc : ∀ p, L.cdim (L.copy p) = L.cdim p)
    (hcdim : ∀ p δ, L.cdim (L.boxplus p δ) = L.cdim p) (nes : List (NumEdge P E)) (eps : E) (fixed : List Nat) (dxv : Seg E)
    (w w1 w2 : World P E) (st : List (Nat × Nat × P)) (r : RefinesSt L w st)
    (h1 : assembleNumObj L nes eps w = some w1) (h2 : optimizeStepObj L fixed dxv w1 = some w2) :
    RefinesSt L w2 (applyDx L.boxplus fixed (touchSt L (touchedBy w.edges nes) st) dxv.get) :=
  optimizeStepObj_refines L fixed dxv w1 w2 _ hcdim (assembleNumObj_refines_exact L hcc nes eps w w1 st r h1) h2

/-- **Refinement, `iters` iterations, exact (no hypothesis on `copy`)**: reading the final world through its references
    gives the fold of `applyDx ∘ touchSt` over the increments the solver returned.  This is the exact statement for
    SE(2) poses with out-of-range angles, where `copy` wraps the angle (`touchP_of_idem`: a touched vertex holds `copy p`). -/
theorem optimizeItersNumObj_refines_exact (L : PoseLib P E) (hcc : ∀ p, L.cdim (L.copy p) = L.cdim p)
    (hcdim : ∀ p δ, L.cdim (L.boxplus p δ) = L.cdim p) (nes : List (NumEdge P E)) (eps : E) (fixed : List Nat)
    (solve : Nat → GraphView P E → Seg E) (edges : List EdgeO) :
    ∀ (n i : Nat) (w w' : World P E) (st : List (Nat × Nat × P)), w.edges = edges → RefinesSt L w st →
      optimizeItersNumObj L nes eps fixed solve n i w = some w' →
      ∃ dxs : List (Seg E), dxs.length = n ∧
        RefinesSt L w' (dxs.foldl (fun s dx => applyDx L.boxplus fixed (touchSt L (touchedBy edges nes) s) dx.get) st) := by
  intro n
  induction n with
  | zero =>
    intro i w w' st _ r h
    simp only [optimizeItersNumObj] at h
    cases h
    exact ⟨[], rfl, r⟩
  | succ n ih =>
    intro i w w' st he r h
    simp only [optimizeItersNumObj] at h
    obtain ⟨w1, h1, h'⟩ := Option.bind_eq_some_iff.1 h
    obtain ⟨w2, h2, h3⟩ := Option.bind_eq_some_iff.1 h'
    have r2 := numIterObj_refines_exact L hcc hcdim nes eps fixed _ w w1 w2 st r h1 h2
    have he2 : w2.edges = edges := by
      rw [(optimizeStepObj_aframe L fixed _ w1 w2 h2).edges, (assembleNumObj_aframe L nes eps w w1 h1).edges, he]
    rw [he] at r2
    obtain ⟨dxs, hl, r'⟩ := ih (i + 1) w2 w' _ he2 r2 h3
    exact ⟨solve i w1.view :: dxs, by simp [hl], r'⟩

omit [ScalarF E] in
theorem applyDx_good (L : PoseLib P E) (G : P → Prop) (hGbox : ∀ p δ, G p → G (L.boxplus p δ)) (fixed : List Nat)
    (st : List (Nat × Nat × P)) (dx : Nat → E) (h : ∀ x ∈ st, G x.2.2) : ∀ x ∈ applyDx L.boxplus fixed st dx, G x.2.2 := by
  intro x hx
  unfold applyDx at hx
  obtain ⟨y, hy, hyx⟩ := List.mem_map.1 hx
  obtain ⟨g, d, p⟩ := y
  simp only at hyx
  split at hyx
  · subst hyx; exact h _ hy
  · subst hyx; exact hGbox _ _ (h _ hy)

/-- **Refinement, `iters` iterations, poses with `copy p = p`**: the analogue of `optimizeItersObj_refines` for the repaired
    operation — the contents are `iters` times `Model.applyDx` with the increments the solver returned; the re-bindings made
    by the numerical differentiation do not show.  `G` is any class of poses on which `copy` is the identity and that `⊞`
    does not leave (library, real arithmetic: `typedLib_good_real`; or `G := fun _ => True` when `copy` is the identity). -/
theorem optimizeItersNumObj_refines (L : PoseLib P E) (hcc : ∀ p, L.cdim (L.copy p) = L.cdim p)
    (hcdim : ∀ p δ, L.cdim (L.boxplus p δ) = L.cdim p) (G : P → Prop) (hG : ∀ p, G p → L.copy p = p)
    (hGbox : ∀ p δ, G p → G (L.boxplus p δ)) (nes : List (NumEdge P E)) (eps : E) (fixed : List Nat)
    (solve : Nat → GraphView P E → Seg E) :
    ∀ (n i : Nat) (w w' : World P E) (st : List (Nat × Nat × P)), RefinesSt L w st → (∀ x ∈ st, G x.2.2) →
      optimizeItersNumObj L nes eps fixed solve n i w = some w' →
      ∃ dxs : List (Seg E), dxs.length = n ∧
        RefinesSt L w' (dxs.foldl (fun s dx => applyDx L.boxplus fixed s dx.get) st) ∧
        ∀ x ∈ dxs.foldl (fun s dx => applyDx L.boxplus fixed s dx.get) st, G x.2.2 := by
  intro n
  induction n with
  | zero =>
    intro i w w' st r hg h
    simp only [optimizeItersNumObj] at h
    cases h
    exact ⟨[], rfl, r, hg⟩
  | succ n ih =>
    intro i w w' st r hg h
    simp only [optimizeItersNumObj] at h
    obtain ⟨w1, h1, h'⟩ := Option.bind_eq_some_iff.1 h
    obtain ⟨w2, h2, h3⟩ := Option.bind_eq_some_iff.1 h'
    have r2 := numIterObj_refines_exact L hcc hcdim nes eps fixed _ w w1 w2 st r h1 h2
    rw [touchSt_of_fix L _ st (fun x hx => hG _ (hg x hx))] at r2
    obtain ⟨dxs, hl, r', g'⟩ := ih (i + 1) w2 w' _ r2 (applyDx_good L G hGbox fixed st _ hg) h3
    exact ⟨solve i w1.view :: dxs, by simp [hl], r', g'⟩

omit [ScalarF E] in
theorem fixFirst_refinesSt (L : PoseLib P E) (ffp : Bool) (w w1 : World P E) (h : fixFirst ffp w = some w1)
    (st : List (Nat × Nat × P)) (r : RefinesSt L w st) : RefinesSt L w1 st := by
  obtain ⟨f1, _, f3, _, _, f6⟩ := fixFirst_spec ffp w w1 h
  unfold RefinesSt at r ⊢
  rw [← r, f1]
  apply List.ext_getElem?
  intro j
  simp only [List.getElem?_map]
  cases hv : w.vertices[j]? with
  | none =>
    have : w1.vertices[j]? = none := by rw [List.getElem?_eq_none_iff] at hv ⊢; omega
    rw [this]
  | some v =>
    obtain ⟨b, hb⟩ := f6 j v hv
    rw [hb]; rfl

/-- **Refinement of the whole repaired `optimize()`**, poses with `copy p = p`: with `fixed` the set of graph.py:442, the
    final world — after `fix_first_pose`, `iters` iterations each preceded by an assembling pass that re-binds the vertices
    of the numerically differentiated edges, and the optional closing pass — reads, through its references, as `iters`
    times `Model.applyDx` applied to the initial state: exactly what `optimizeObj` (`optimizeItersObj_refines`) and the
    value-level models give.  The extra re-bindings preserve content; that is the theorem. -/
theorem optimizeNumObj_refines (L : PoseLib P E) (hcc : ∀ p, L.cdim (L.copy p) = L.cdim p)
    (hcdim : ∀ p δ, L.cdim (L.boxplus p δ) = L.cdim p) (G : P → Prop) (hG : ∀ p, G p → L.copy p = p)
    (hGbox : ∀ p δ, G p → G (L.boxplus p δ)) (nes : List (NumEdge P E)) (eps : E) (solve : Nat → GraphView P E → Seg E)
    (ffp : Bool) (iters : Nat) (extra : Bool) (w w' : World P E) (st : List (Nat × Nat × P)) (r : RefinesSt L w st)
    (hg : ∀ x ∈ st, G x.2.2) (h : optimizeNumObj L nes eps solve ffp iters extra w = some w') (fixed : List Nat)
    (hfixed : fixed = fixedIndices (applyFixFirst ffp (w.vertices.map (·.fixed))) (w.vertices.map (·.gidx))) :
    ∃ dxs : List (Seg E), dxs.length = iters ∧
      RefinesSt L w' (dxs.foldl (fun s dx => applyDx L.boxplus fixed s dx.get) st) := by
  unfold optimizeNumObj at h
  obtain ⟨w1, h1, h'⟩ := Option.bind_eq_some_iff.1 h
  obtain ⟨w2, h2, h3⟩ := Option.bind_eq_some_iff.1 h'
  obtain ⟨_, _, _, f4, f5, _⟩ := fixFirst_spec ffp w w1 h1
  have hfix1 : fixedIdx w1 = fixed := by rw [fixedIdx_eq, f4, f5, hfixed]
  rw [hfix1] at h2
  have r1 := fixFirst_refinesSt L ffp w w1 h1 st r
  obtain ⟨dxs, hl, r2, g2⟩ := optimizeItersNumObj_refines L hcc hcdim G hG hGbox nes eps fixed solve iters 0 w1 w2 st r1 hg h2
  refine ⟨dxs, hl, ?_⟩
  cases extra with
  | false => simp only [Bool.false_eq_true, if_false] at h3; cases h3; exact r2
  | true =>
    simp only [if_true] at h3
    exact assembleNumObj_refines L hcc nes eps w2 w' _ r2 (fun x hx => hG _ (g2 x hx)) h3

/-! ### the library's pose classes: `Model.Run` -/

theorem typedLib_cdim_copy (p : Pose E) : (typedLib (E := E)).cdim ((typedLib (E := E)).copy p) = (typedLib (E := E)).cdim p := by
  cases p <;> rfl

/-- **Refinement to the typed whole-call model, iterations.**  `Model.Run.iterStates` of `stepWith` (the state after `n`
    updates of `optimizeRun`, tied to the real `optimize` by the `run` harness) is what the object-level iterations of the
    REPAIRED operation leave in the vertices' pose objects, when both apply the same increments `dxs i` — the analogue of
    `typed_iters_refines` for graphs with numerically differentiated edges. -/
theorem typed_numiters_refines (G : Pose E → Prop) (hG : ∀ p, G p → (typedLib (E := E)).copy p = p)
    (hGbox : ∀ p δ, G p → G (Pose.boxplus p δ)) (nes : List (NumEdge (Pose E) E)) (eps : E) (fixed : List Nat)
    (es : List (Edge E)) (dxs : Nat → Seg E) :
    ∀ (n i : Nat) (w w' : World (Pose E) E) (st st' : GState E), RefinesSt typedLib w st → (∀ x ∈ st, G x.2.2) →
      optimizeItersNumObj typedLib nes eps fixed (fun j _ => dxs j) n i w = some w' →
      iterStates (fun j => stepWith (dxs (i + j)).get fixed es) st n = some st' →
      RefinesSt typedLib w' st' ∧ ∀ x ∈ st', G x.2.2 := by
  intro n
  induction n with
  | zero =>
    intro i w w' st st' r hg h hs
    simp only [optimizeItersNumObj] at h
    simp only [iterStates] at hs
    cases h; cases hs; exact ⟨r, hg⟩
  | succ n ih =>
    intro i w w' st st' r hg h hs
    simp only [optimizeItersNumObj] at h
    obtain ⟨w1, h1, h'⟩ := Option.bind_eq_some_iff.1 h
    obtain ⟨w2, h2, h3⟩ := Option.bind_eq_some_iff.1 h'
    rw [iterStates_succ_front] at hs
    obtain ⟨st1, hs1, hs2⟩ := Option.bind_eq_some_iff.1 hs
    have hs1' : stepWith (dxs i).get fixed es st = some st1 := by simpa using hs1
    unfold stepWith at hs1'
    obtain ⟨_, _, hst1⟩ := Option.map_eq_some_iff.1 hs1'
    have r2 := numIterObj_refines_exact typedLib typedLib_cdim_copy typedLib_cdim nes eps fixed (dxs i) w w1 w2 st r h1 h2
    rw [touchSt_of_fix typedLib _ st (fun x hx => hG _ (hg x hx))] at r2
    have g2 := applyDx_good typedLib G hGbox fixed st (dxs i).get hg
    have hb : (typedLib (E := E)).boxplus = Pose.boxplus := rfl
    rw [hb, hst1] at r2 g2
    refine ih (i + 1) w2 w' st1 st' r2 g2 h3 ?_
    have : (fun j => stepWith (dxs (i + (j + 1))).get fixed es) = (fun j => stepWith (dxs (i + 1 + j)).get fixed es) := by
      funext j; rw [Nat.add_assoc, Nat.add_comm 1 j]
    rw [← this]; exact hs2

/-- **Refinement of the whole call to `Model.Run.stateAt`** (the returned state of `optimizeRun` after `iters` updates):
    `optimizeNumObj` on library poses with the recorded increments `dxs` — what the driver command `heap` runs for `opt` on a
    graph with `DistanceEdge`s — leaves in the vertices' pose objects exactly the state the typed value-level model computes. -/
theorem typed_optimizeNumObj_refines (G : Pose E → Prop) (hG : ∀ p, G p → (typedLib (E := E)).copy p = p)
    (hGbox : ∀ p δ, G p → G (Pose.boxplus p δ)) (nes : List (NumEdge (Pose E) E)) (eps : E) (es : List (Edge E))
    (dxs : Nat → Seg E) (ffp : Bool) (iters : Nat) (extra : Bool) (w w' : World (Pose E) E) (st st' : GState E)
    (r : RefinesSt typedLib w st) (hg : ∀ x ∈ st, G x.2.2)
    (h : optimizeNumObj typedLib nes eps (fun j _ => dxs j) ffp iters extra w = some w') (fixed : List Nat)
    (hfixed : fixed = fixedIndices (applyFixFirst ffp (w.vertices.map (·.fixed))) (w.vertices.map (·.gidx)))
    (hs : stateAt (fun i => (dxs i).get) fixed es st iters = some st') : RefinesSt typedLib w' st' := by
  unfold optimizeNumObj at h
  obtain ⟨w1, h1, h'⟩ := Option.bind_eq_some_iff.1 h
  obtain ⟨w2, h2, h3⟩ := Option.bind_eq_some_iff.1 h'
  obtain ⟨_, _, _, f4, f5, _⟩ := fixFirst_spec ffp w w1 h1
  have hfix1 : fixedIdx w1 = fixed := by rw [fixedIdx_eq, f4, f5, hfixed]
  rw [hfix1] at h2
  have r1 := fixFirst_refinesSt typedLib ffp w w1 h1 st r
  unfold stateAt at hs
  obtain ⟨r2, g2⟩ := typed_numiters_refines G hG hGbox nes eps fixed es dxs iters 0 w1 w2 st st' r1 hg h2
    (by simpa only [Nat.zero_add] using hs)
  cases extra with
  | false => simp only [Bool.false_eq_true, if_false] at h3; cases h3; exact r2
  | true =>
    simp only [if_true] at h3
    exact assembleNumObj_refines typedLib typedLib_cdim_copy nes eps w2 w' _ r2 (fun x hx => hG _ (g2 x hx)) h3

end numopt

/-! ### real arithmetic: the hypotheses on `copy` hold for the library -/

/-- a library pose whose SE(2) angle, if any, is in `[-π, π)` -/
def GoodReal (p : Pose ℝ) : Prop := ∀ q, p = .se2 q → GraphSlam.Props.C09.InRange q

/-- **The hypotheses `hG`, `hGbox` of the refinement theorems hold for the library over ℝ**: `copy` is the identity on
    `GoodReal` poses (C15 `copy_fixed_point`), and `⊞` ALWAYS returns a `GoodReal` pose (`PoseSE2.boxplus` wraps the angle) —
    so after the first update every free vertex is `GoodReal` whatever it was before. -/
theorem typedLib_good_real :
    (∀ p : Pose ℝ, GoodReal p → (typedLib (E := ℝ)).copy p = p) ∧ (∀ (p : Pose ℝ) (δ : Nat → ℝ), GoodReal (Pose.boxplus p δ)) := by
  refine ⟨fun p hp => typedLib_copy_real p hp, fun p δ q hq => ?_⟩
  cases p with
  | r2 a => simp [Pose.boxplus] at hq
  | r3 a => simp [Pose.boxplus] at hq
  | se2 a =>
    simp only [Pose.boxplus, stored_eq, Pose.se2.injEq] at hq
    rw [← hq]
    exact GraphSlam.Props.C09.PoseSE2_boxplus_inRange a _
  | se3 a => simp [Pose.boxplus] at hq

/-- `copy` of the library is idempotent over ℝ, with no range hypothesis (`PoseSE2.copy` wraps the angle into `[-π, π)`,
    the others are the identity) — the hypothesis `hidem` of `optimizeNumObj_fixed_content_idem` / `touchP_of_idem` -/
theorem typedLib_copy_idem_real (p : Pose ℝ) : (typedLib (E := ℝ)).copy ((typedLib (E := ℝ)).copy p) = (typedLib (E := ℝ)).copy p := by
  apply typedLib_copy_real
  intro q hq
  cases p with
  | r2 a => exact absurd hq (by simp [typedLib])
  | r3 a => exact absurd hq (by simp [typedLib])
  | se2 a =>
    have : PoseSE2.copy a = q := by simpa [typedLib] using hq
    rw [← this]
    exact GraphSlam.Props.C09.PoseSE2_copy_inRange a
  | se3 a => exact absurd hq (by simp [typedLib])

end GraphSlam.Props.C15.Heap
