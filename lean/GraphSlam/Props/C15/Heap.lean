import GraphSlam.Props.C15.HeapExec
import GraphSlam.Props.C15.Frame
import GraphSlam.Model.Run

/-!
# C15 — the object-identity (heap) model: `optimize` and the queries never write into an existing array

`Model/Heap.lean` models numpy *objects*: a growing heap of arrays, vertices and edges holding references (several may
hold the same one), every pose operator allocating its result, `+=` re-binding.  This file collects the theorems (proved
in `HeapBasic` … `HeapExec`, core Lean only) and adds the parts that use the rest of the framework:

1. **append-only** — `run_heap`, `run_appendOnly` (all histories, all worlds), `exec_frame`, `optimizeObj_ext`,
   `numJacobianObj_frame`;
2. **queries** — `exec_query_frame`, `run_queries_frame`, `query_deterministic`; numerical differentiation re-binds the
   vertex to a *new object with the same content*: `numJacobianObj_rebinds`, `numJacobianObj_pure`, `run_readonly` (here);
3. **optimize** — `optimizeObj_frame`, `optimizeObj_fixed_same_object` (here), `optimizeStepObj_spec`, the aliasing case
   `optimizeStepObj_shared`;
4. **copy independence** — `copy_independent`;
5. **refinement** — `numJacobianObj_refines` (to `Model.numJacobian`), `optimizeStepObj_refines` /
   `optimizeItersObj_refines` (to `Model.applyDx`), `typed_step_refines` / `typed_iters_refines` (to `Model.stepWith` /
   `iterStates` of `Model.Run`, the typed whole-call model) (here).
-/

namespace GraphSlam.Props.C15.Heap
open GraphSlam GraphSlam.Gen GraphSlam.Model GraphSlam.Model.Objects

variable {P E : Type} [ScalarF E]

/-! ### 2. numerical differentiation: identity changes, value does not -/

/-- **`_calc_jacobian` restores every pose by value, not by identity.**  On a well-formed world whose vertices hold the
    poses `ps`, with `copy p = p` for these poses (C15 `copy_fixed_point`: all four classes; SE(2) for an
    in-range angle): after the call every vertex holds a pose object with exactly the entries it had (`Refines w' ps`),
    so everything the library can read is the same (`view`); the differentiated vertex is bound to a *different* object
    when `dim > 0` (`Rebound`: a fresh `p0.copy()`), all other references are the same; no pre-existing object changed. -/
theorem numJacobianObj_pure (L : PoseLib P E) (uerr : EdgeView P E → Seg E) (w w' : World P E) (ei vi dim : Nat)
    (eps : E) (J : Nat) (ps : List P) (hw : w.WF) (r : Refines w ps) (hcopy : ∀ p ∈ ps, L.copy p = p)
    (h : numJacobianObj L uerr w ei vi dim eps = some (w', J)) :
    Ext w.heap w'.heap ∧ w'.edges = w.edges ∧ (∃ k, Rebound k w.vertices w'.vertices) ∧
    Refines w' ps ∧ w'.view = w.view ∧ w'.WF := by
  obtain ⟨e1, e2, _, e, k, _, _, hreb⟩ := numJacobianObj_frame L uerr w w' ei vi dim eps J h
  obtain ⟨e', k', he', hk', r', _⟩ := numJacobianObj_refines L uerr w w' ei vi dim eps J ps hw r h
  have hps : (numJacobian (errOf uerr w.heap e') L.boxplus L.copy k' dim eps ps).2 = ps := by
    cases hp : ps[k']? with
    | none => simp [numJacobian, hp]
    | some p => exact C16.numJacobian_pure _ _ _ _ _ _ _ p hp (hcopy p (List.mem_of_getElem? hp))
  rw [hps] at r'
  refine ⟨e1, e2, ⟨k, hreb⟩, r', view_eq_of_refines hw e1 e2 hreb r r', ?_⟩
  exact WF.of_frame hw e1.1 (fun v hv => Or.inr (r'.wf v hv)) e2

/-- the calls that the property calls "computing": the queries and numerical differentiation -/
def isReadOnly : Op P E → Bool
  | .numJacobian _ _ _ _ _ => true
  | op => op.isQuery

/-- **Any history of computing calls** (errors, χ², analytic or numerical Jacobians, contributions, comparisons, exports,
    pose operators, in any order) on a well-formed world: every pre-existing object is bit-identical, the edges hold the
    same references, every vertex holds a pose object with the entries it had, and everything readable is the same — so
    every later query returns the same values. -/
theorem run_readonly (L : PoseLib P E) (ops : List (Op P E))
    (hops : ∀ op ∈ ops, isReadOnly op = true) (w w' : World P E) (ps : List P) (hcopy : ∀ p ∈ ps, L.copy p = p)
    (hw : w.WF) (r : Refines w ps)
    (h : run L ops w = some w') :
    Ext w.heap w'.heap ∧ w'.edges = w.edges ∧ Refines w' ps ∧ w'.view = w.view ∧ w'.WF := by
  induction ops generalizing w with
  | nil => simp only [run, Option.some.injEq] at h; subst h; exact ⟨Ext.refl _, rfl, r, rfl, hw⟩
  | cons op ops ih =>
    simp only [run] at h
    obtain ⟨w1, h1, h2⟩ := Option.bind_eq_some_iff.1 h
    have hop := hops op (List.mem_cons_self)
    have step : Ext w.heap w1.heap ∧ w1.edges = w.edges ∧ Refines w1 ps ∧ w1.view = w.view ∧ w1.WF := by
      by_cases hq : op.isQuery = true
      · have q := exec_query_frame L op hq w w1 h1
        exact ⟨q.heap, q.edges, by unfold Refines; rw [q.poses hw]; exact r, q.view hw, q.wf hw⟩
      · cases op with
        | numJacobian uerr ei vi dim eps =>
          obtain ⟨rr, hr, rfl⟩ := Option.map_eq_some_iff.1 h1
          obtain ⟨a, b, _, c, d, e⟩ := numJacobianObj_pure L uerr w rr.1 ei vi dim eps rr.2 ps hw r hcopy hr
          exact ⟨a, b, c, d, e⟩
        | copy p => exact absurd rfl hq
        | add p q => exact absurd rfl hq
        | sub p q => exact absurd rfl hq
        | inverse p => exact absurd rfl hq
        | toCompact p => exact absurd rfl hq
        | calcErrorOdo ei => exact absurd rfl hq
        | calcErrorLm ei => exact absurd rfl hq
        | query f => exact absurd rfl hq
        | normalize p => exact absurd hop (by simp [isReadOnly, Op.isQuery])
        | iadd k q => exact absurd hop (by simp [isReadOnly, Op.isQuery])
        | optimize solve ffp iters => exact absurd hop (by simp [isReadOnly, Op.isQuery])
        | scribble p o => exact absurd hop (by simp [isReadOnly, Op.isQuery])
    obtain ⟨a1, a2, a3, a4, a5⟩ := step
    obtain ⟨b1, b2, b3, b4, b5⟩ := ih (fun o ho => hops o (List.mem_cons_of_mem _ ho)) w1 a5 a3 h2
    exact ⟨a1.trans b1, b2.trans a2, b3, b4.trans a4, b5⟩

/-! ### 1./3. pose operators return new objects; fixed vertices keep their object -/

omit [ScalarF E] in
/-- **Pose operators never mutate their operands**: `p + q` (also `p - q`, `p.inverse`, `p.copy()`: `poseSub_spec`,
    `poseInverse_spec`, `poseCopy_spec`) returns an object that did not exist before — so it is neither `p` nor `q` — and
    leaves every existing object, the operands included, bit-identical. -/
theorem poseAdd_fresh (L : PoseLib P E) (h : Heap (Obj P E)) (p q : Nat) (r : Heap (Obj P E) × Nat)
    (hr : poseAdd L h p q = some r) : r.2 = h.size ∧ r.2 ≠ p ∧ r.2 ≠ q ∧ Ext h r.1 := by
  obtain ⟨a, ha, hcase⟩ := poseAdd_spec hr
  obtain ⟨c, hc⟩ := poseAdd_alloc hr
  have hp := poseOf_lt ha
  have hq : q < h.size := by
    rcases hcase with ⟨b, _, hb, _⟩ | ⟨s, hs, _⟩
    · exact lt_size_of_get? _ _ _ hb
    · exact lt_size_of_get? _ _ _ hs
  rw [hc.id]
  exact ⟨rfl, by omega, by omega, hc.ext⟩

omit [ScalarF E] in
/-- **In terms of the flags**: a vertex whose `fixed` flag is set when the iterations start (its own flag, or the first
    vertex under `fix_first_pose=True`) is bound, after `optimize()`, to the very same pose object, with the very same
    entries — any number of iterations, any solver behaviour, any aliasing. -/
theorem optimizeObj_fixed_same_object (L : PoseLib P E) (solve : Nat → GraphView P E → Seg E) (ffp : Bool) (iters : Nat)
    (w w' : World P E) (hwf : VWF w) (h : optimizeObj L solve ffp iters w = some w') (j : Nat) (v u : VertexO)
    (hv : w.vertices[j]? = some v) (hu : w'.vertices[j]? = some u) (hflag : v.fixed = true ∨ (ffp = true ∧ j = 0)) :
    u.pose = v.pose ∧ w'.heap.get? u.pose = w.heap.get? v.pose := by
  obtain ⟨e, _, _, _, hper, _⟩ := optimizeObj_frame L solve ffp iters w w' hwf h _ rfl
  obtain ⟨u', hu', _, _, hfix, _, _⟩ := hper j v hv
  rw [hu] at hu'; cases hu'
  have hmem : v.gidx ∈ fixedIndices (applyFixFirst ffp (w.vertices.map (·.fixed))) (w.vertices.map (·.gidx)) := by
    rw [GraphSlam.Props.C06.mem_fixedIndices]
    refine ⟨j, ?_, by simp [hv]⟩
    rw [GraphSlam.Props.C06.fix_first_pose_flags]
    rcases hflag with hf | ⟨hf, hj⟩
    · simp [hv, hf]
    · have hne : List.map (·.fixed) w.vertices ≠ [] := by
        intro hh
        have := List.map_eq_nil_iff.1 hh
        rw [this] at hv; simp at hv
      simp [hf, hj, hne]
  have hp := hfix hmem
  exact ⟨hp, by rw [hp]; exact e.2 _ (hwf v (List.mem_of_getElem? hv))⟩

/-! ### 5. the library's pose classes -/

/-- `⊞` returns a pose of the class of its left operand -/
theorem typedLib_cdim (p : Pose E) (δ : Nat → E) : (typedLib (E := E)).cdim ((typedLib (E := E)).boxplus p δ) = (typedLib (E := E)).cdim p := by
  cases p <;> rfl

/-- **Refinement to the typed whole-call model.**  One iteration of the object-level `optimize` on a graph of library
    poses is `Model.stepWith` (`Model.Run`: the model tied to the real `optimize` by the `run` harness), read through the
    references. -/
theorem typed_step_refines (fixed : List Nat) (es : List (Edge E)) (dx : Seg E) (w w' : World (Pose E) E)
    (st st' : GState E) (r : RefinesSt typedLib w st) (hs : stepWith dx.get fixed es st = some st')
    (h : optimizeStepObj typedLib fixed dx w = some w') : RefinesSt typedLib w' st' := by
  unfold stepWith at hs
  obtain ⟨_, _, rfl⟩ := Option.map_eq_some_iff.1 hs
  exact optimizeStepObj_refines typedLib fixed dx w w' st typedLib_cdim r h

omit [ScalarF E] in
theorem iterStates_succ_front (stepFn : Nat → GState E → Option (GState E)) (s : GState E) (n : Nat) :
    iterStates stepFn s (n + 1) = (stepFn 0 s).bind fun s1 => iterStates (fun j => stepFn (j + 1)) s1 n := by
  induction n with
  | zero => simp [iterStates]
  | succ n ih =>
    rw [iterStates, ih]
    cases stepFn 0 s with
    | none => rfl
    | some s1 => simp only [Option.bind_some]; rw [iterStates]

/-- **Refinement of the whole call's state.**  `Model.Run.stateAt` (the state after `n` updates of the typed whole-call
    model `optimizeRun`, tied to the real `optimize` by the `run` harness) is what the object-level iterations leave in
    the vertices' pose objects, when both apply the same increments `dxs i`. -/
theorem typed_iters_refines (fixed : List Nat) (es : List (Edge E)) (dxs : Nat → Seg E) :
    ∀ (n i : Nat) (w w' : World (Pose E) E) (st st' : GState E), RefinesSt typedLib w st →
      optimizeItersObj typedLib fixed (fun j _ => dxs j) n i w = some w' →
      iterStates (fun j => stepWith (dxs (i + j)).get fixed es) st n = some st' → RefinesSt typedLib w' st' := by
  intro n
  induction n with
  | zero =>
    intro i w w' st st' r h hs
    simp only [optimizeItersObj] at h
    simp only [iterStates] at hs
    cases h; cases hs; exact r
  | succ n ih =>
    intro i w w' st st' r h hs
    simp only [optimizeItersObj] at h
    obtain ⟨w1, h1, h2⟩ := Option.bind_eq_some_iff.1 h
    rw [iterStates_succ_front] at hs
    obtain ⟨st1, hs1, hs2⟩ := Option.bind_eq_some_iff.1 hs
    have r1 := typed_step_refines fixed es (dxs i) w w1 st st1 r (by simpa using hs1) h1
    refine ih (i + 1) w1 w' st1 st' r1 h2 ?_
    have : (fun j => stepWith (dxs (i + (j + 1))).get fixed es) = (fun j => stepWith (dxs (i + 1 + j)).get fixed es) := by
      funext j; rw [Nat.add_assoc, Nat.add_comm 1 j]
    rw [← this]; exact hs2

/-- for the real-number instance: `copy` is the identity on the entries of R², R³ and SE(3) poses, and on SE(2) poses with
    an in-range angle (C15 `copy_fixed_point`) — the hypothesis `hcopy` of `numJacobianObj_pure` -/
theorem typedLib_copy_real (p : Pose ℝ)
    (hr : ∀ q, p = .se2 q → GraphSlam.Props.C09.InRange q) : (typedLib (E := ℝ)).copy p = p := by
  obtain ⟨h2, h3, hse2, hse3⟩ := GraphSlam.Props.C15.copy_fixed_point
  cases p with
  | r2 a => show Pose.r2 (PoseR2.copy a) = _; rw [h2]
  | r3 a => show Pose.r3 (PoseR3.copy a) = _; rw [h3]
  | se2 a => show Pose.se2 (PoseSE2.copy a) = _; rw [hse2 a (hr a rfl)]
  | se3 a => show Pose.se3 (PoseSE3.copy a) = _; rw [hse3]

end GraphSlam.Props.C15.Heap
