import GraphSlam.Props.C13.Roundtrip
import GraphSlam.Props.C13.Closed
import GraphSlam.Props.C13.Refuse
import GraphSlam.Props.C13.Example

/-!
# C13 — `.g2o` export followed by import is lossless

All statements are about the Layer-B model `GraphSlam.Model.G2O` (writer `Graph.toG2O`, reader `Graph.fromG2O`), which the
correspondence harness compares with `Graph.to_g2o` / `Graph.from_g2o` on every run (file text string-equal, parsed objects
bit-equal).  Numbers are atoms; the only assumption about them is `GoodF` / `GoodI` (`parse (fmt x) = some x`, `fmt x` a
non-empty whitespace-free token), required of the atoms of the graph at hand and re-checked by the harness.

Helper lemmas live in `GraphSlam/Props/C13/*.lean`; this file holds the property theorems.
-/

namespace GraphSlam.Props.C13
open GraphSlam.Model.G2O GraphSlam.Props.C14

variable {A : Type}

/-- **`splitWS_join`** — tokens without whitespace survive `" ".join` followed by `split()`, for every list length
(also with a trailing newline, as in a written line). -/
theorem splitWS_join (toks : List Str) (h : ∀ t ∈ toks, TokOK t) :
    splitWS (joinSp toks) = toks ∧ splitWS (joinSp toks ++ ['\n']) = toks := by
  constructor
  · have := splitWS_joinSp_append toks [] h (by intro c hc; simp at hc)
    simpa using this
  · exact splitWS_joinSp_append toks ['\n'] h allWS_nl

/-- arbitrary whitespace between (and around) the fields is equivalent to single spaces -/
theorem splitWS_glue (w0 : Str) (ps : List (Str × Str)) (hw : AllWS w0) (h : GoodGlue ps) :
    splitWS (w0 ++ glue ps) = ps.map (·.1) := by
  rw [splitWS_ws_append w0 _ hw]; exact splitWS_glue' ps h

/-- **`triu_full_roundtrip`** — for **every** `n` and every `n × n` matrix `M`: writing the row-major upper triangle
(`information[np.triu_indices(n, 0)]`) succeeds, and `upper_triangular_matrix_to_full_matrix` of it returns a matrix, which
is `M` again iff `M` is symmetric. -/
theorem triu_full_roundtrip (zero : A) (M : Mat A) (n : Nat) (hM : Square M n) :
    ∃ tri, triuOf M n = .ok tri ∧ ∃ M', expandTriu zero n tri = .ok M' ∧ (M' = M ↔ Symm zero M n) := by
  refine ⟨_, triuOf_square zero M n hM, fullOfTriu zero n _, expandTriu_exact zero n _ (by simp), ?_⟩
  exact fullOfTriu_triu_iff zero M n hM

/-- what the reader builds is always symmetric and carries the file's numbers above the diagonal, in file order -/
theorem expansion_symmetric (zero : A) (n : Nat) (arr : List A) :
    Symm zero (fullOfTriu zero n arr) n ∧
      ∀ i j, i ≤ j → j < n → entry zero (fullOfTriu zero n arr) i j = arr.getD ((triuPairs n).idxOf (i, j)) zero :=
  ⟨fullOfTriu_symm zero n arr, fun i j hij hj => entry_fullOfTriu_upper zero n arr i j hij hj⟩

section
variable [DecidableEq A]

set_option linter.unusedSimpArgs false
set_option linter.unusedSectionVars false

/-- **`roundtrip`** — for every expressible graph the writer succeeds, and reading the written text back (no custom edge
types registered) logs nothing and yields exactly `canon g`: same parameters / vertices / edges in the same order with the
same ids, classes, measurements, information matrices and offsets, up to `canon`. -/
theorem roundtrip (env : Env A) (g : Graph A) (h : Expressible env g) :
    ∃ text, Graph.toG2O env g = .ok text ∧
      (Graph.fromG2O env [] text).warnings = [] ∧ (Graph.fromG2O env [] text).result = .ok (canon env g) :=
  roundtrip_aux env g h

/-- the hypotheses of `roundtrip` are satisfiable by a graph with every element kind -/
example : Expressible Ex.env Ex.g := by decide

/-- ids, classes and element order are preserved by `canon` (hence by a cycle) -/
theorem canon_preserves_structure (env : Env A) (g : Graph A) :
    (canon env g).vertices.map (fun v => (v.id, v.pose.kind)) = g.vertices.map (fun v => (v.id, v.pose.kind)) ∧
    (canon env g).params.map (fun p => (p.kind, p.id)) = g.params.map (fun p => (p.kind, p.id)) ∧
    (canon env g).edges.map (fun e => (e.ids, e.info)) = g.edges.map (fun e => (e.ids, e.info)) := by
  refine ⟨?_, ?_, ?_⟩
  · simp [canon, List.map_map, Function.comp_def, canonVertex, canonPose_kind]
  · simp [canon, List.map_map, Function.comp_def, canonParam]
  · simp [canon, List.map_map, Function.comp_def, canonEdge_ids, canonEdge_info]

/-- **`canon_physical`** — what `canon` may change, element by element.
* a pose (vertex, parameter value, SE(2) odometry measurement): every entry is untouched except the angle of a `PoseSE2`,
  which is replaced by its wrapped value;
* an SE(3) odometry measurement: the position is untouched, the quaternion is replaced by `normalize()` of it;
* edges: vertex ids and the information matrix are untouched; landmark measurements are untouched; the landmark offset of an
  expressible edge is replaced by a pose that is `np.array_equal` to it (`PoseSE2.identity()`, resp. the registered
  parameter value) — only the sign of a zero can differ (`hsym`: IEEE `==` is symmetric). -/
theorem canon_physical (env : Env A) (g : Graph A) (h : Expressible env g) (hsym : ∀ a b, env.numEq a b = env.numEq b a) :
    (∀ p : Pose A, (canonPose env p).kind = p.kind ∧
        ((canonPose env p).xs = p.xs ∨ ∃ x y t, p.kind = .se2 ∧ p.xs = [x, y, t] ∧ (canonPose env p).xs = [x, y, env.wrap t])) ∧
    (∀ p : Pose A, (normalizeSE3 env p).kind = p.kind ∧
        ((normalizeSE3 env p).xs = p.xs ∨ ∃ a0 a1 a2 a3 a4 a5 a6, p.xs = [a0, a1, a2, a3, a4, a5, a6] ∧
          (normalizeSE3 env p).xs = a0 :: a1 :: a2 :: env.normQ a3 a4 a5 a6)) ∧
    (∀ e ∈ g.edges, (canonEdge env g.params e).ids = e.ids ∧ (canonEdge env g.params e).info = e.info ∧
        match e.body, (canonEdge env g.params e).body with
        | .odometry est, .odometry est' => est' = canonPose env est ∨ est' = normalizeSE3 env est
        | .landmark est off _, .landmark est' off' _ => est' = est ∧ off'.kind = off.kind ∧ numEqList env off'.xs off.xs = true
        | _, _ => False) := by
  obtain ⟨_, hps, _, hes⟩ := expressible_parts env g h
  refine ⟨fun p => ⟨canonPose_kind env p, canonPose_xs env p⟩, fun p => ⟨normalizeSE3_kind env p, normalizeSE3_xs env p⟩, ?_⟩
  intro e he
  refine ⟨canonEdge_ids env _ e, canonEdge_info env _ e, ?_⟩
  have hok := hes e he
  obtain ⟨ids, info, body⟩ := e
  cases body with
  | custom c est out => simp [edgeOK] at hok
  | odometry est =>
    simp only [edgeOK, Bool.and_eq_true, Bool.or_eq_true, beq_iff_eq] at hok
    obtain ⟨_, ⟨⟨⟨hka, _⟩, hek⟩, _⟩, _⟩ := hok
    rcases hka with hka | hka
    · have hek' : est.kind = .se2 := by rw [hka] at hek; simpa using hek
      simp [canonEdge, hek']
    · have hek' : est.kind = .se3 := by rw [hka] at hek; simpa using hek
      simp [canonEdge, hek']
  | landmark est off oid =>
    simp only [edgeOK, Bool.and_eq_true, Bool.or_eq_true, beq_iff_eq, decide_eq_true_eq] at hok
    obtain ⟨_, _, hok⟩ := hok
    rcases hok with ⟨⟨⟨⟨_, hokk⟩, hid⟩, _⟩⟩ | ⟨⟨⟨⟨_, hokk⟩, hoid⟩, _⟩⟩
    · simp only [canonEdge, hokk, true_and]
      rw [numEqList_symm env hsym]; exact hid
    · cases oid with
      | none => simp at hoid
      | some z =>
        simp only [Bool.and_eq_true, decide_eq_true_eq] at hoid
        cases hlp : lookupParam g.params .se3offset z with
        | none => simp [hlp] at hoid
        | some p =>
          obtain ⟨hpm, hpk, _⟩ := lookupParam_mem _ _ _ _ hlp
          have hpv : p.value.kind = .se3 := by
            have := hps p hpm
            simp only [paramOK, Bool.and_eq_true, hpk, beq_iff_eq] at this
            exact this.2
          have := hoid.2; rw [hlp] at this
          simp [canonEdge, hokk, hlp, hpv, this]

/-- **`canon_idempotent`** — `canon` is idempotent when the wrap and the quaternion normalisation are.  (`WrapIdem` is
re-checked by the harness on every value; `NormIdem` holds in exact arithmetic, in IEEE arithmetic a second
`normalize()` can move the last bit of a measurement quaternion — the allowed "renormalisation" of the property text.) -/
theorem canon_idempotent (env : Env A) (g : Graph A) (h : Expressible env g) (hw : WrapIdem env) (hq : NormIdem env) :
    canon env (canon env g) = canon env g := by
  obtain ⟨_, hps, _, _⟩ := expressible_parts env g h
  have hp3 : ∀ p ∈ g.params, p.kind = .se3offset → p.value.kind = .se3 := by
    intro p hp hk
    have := hps p hp
    simp only [paramOK, Bool.and_eq_true, hk, beq_iff_eq] at this
    exact this.2
  simp only [canon, List.map_map, Graph.mk.injEq]
  refine ⟨?_, ?_, ?_⟩
  · apply List.map_congr_left; intro p _; simp [canonParam, canonPose_idem env hw]
  · apply List.map_congr_left; intro v _; simp [canonVertex, canonPose_idem env hw]
  · apply List.map_congr_left; intro e _; exact canonEdge_idem env hw hq g.params hp3 e

/-- the canonical form of an expressible graph is expressible, provided the numbers the reader produces are again
printable (`EnvClosed`) -/
theorem expressible_canon (env : Env A) (hc : EnvClosed env) (g : Graph A) (h : Expressible env g) : Expressible env (canon env g) :=
  expressible_canon_aux env hc g h

/-- **a second cycle is the identity**: writing the re-read graph and reading it again returns the same graph -/
theorem second_cycle (env : Env A) (hc : EnvClosed env) (hw : WrapIdem env) (hq : NormIdem env) (g : Graph A) (h : Expressible env g) :
    ∃ text₂, Graph.toG2O env (canon env g) = .ok text₂ ∧ (Graph.fromG2O env [] text₂).result = .ok (canon env g) := by
  obtain ⟨t, h1, _, h3⟩ := roundtrip env (canon env g) (expressible_canon env hc g h)
  exact ⟨t, h1, by rw [h3, canon_idempotent env g h hw hq]⟩

example : EnvClosed Ex.env ∧ WrapIdem Ex.env ∧ NormIdem Ex.env := by
  refine ⟨⟨?_, ?_, ?_, ?_, ?_⟩, ?_, ?_⟩
  · intro a _; exact Ex.good _
  · intro a b c d _ _ _ _ x _; exact Ex.good _
  · intro a b c d; rfl
  · exact ⟨by decide, by decide⟩
  · intro a b _; simp [Ex.env]
  · intro a; simp [Ex.env, Nat.mod_mod]
  · intro a b c d; exact ⟨a % 2, b % 2, c % 2, d % 2, rfl, by simp [Ex.env, Nat.mod_mod]⟩

/-! ### Refusals -/

/-- a vertex whose pose is of no known class: `NotImplementedError` -/
theorem refuses_unknown_pose (env : Env A) (v : Vertex A) (h : v.pose.kind = .other) :
    Vertex.toG2O env v = .error .notImplementedError := by
  simp [Vertex.toG2O, h]

/-- an odometry edge whose first vertex is not SE(2)/SE(3) (R² / R³ odometry): `NotImplementedError` -/
theorem refuses_odometry (env : Env A) (k0 : PoseKind) (k1 : Except PyErr PoseKind) (ids : List Int) (info : Mat A) (est : Pose A)
    (h2 : k0 ≠ .se2) (h3 : k0 ≠ .se3) :
    Edge.toG2O env k0 k1 ⟨ids, info, .odometry est⟩ = .error .notImplementedError := by
  cases k0 <;> simp_all [Edge.toG2O]

/-- a landmark edge that is neither SE(2) → R² nor SE(3) → R³ (Rⁿ → Rⁿ landmarks, landmark edges to a pose, mixed
dimensions): `NotImplementedError` -/
theorem refuses_landmark_classes (env : Env A) (k0 k1 : PoseKind) (ids : List Int) (info : Mat A) (est off : Pose A) (oid : Option Int)
    (h2 : ¬ (k0 = .se2 ∧ k1 = .r2)) (h3 : ¬ (k0 = .se3 ∧ k1 = .r3)) :
    Edge.toG2O env k0 (.ok k1) ⟨ids, info, .landmark est off oid⟩ = .error .notImplementedError := by
  cases k0 <;> cases k1 <;> simp_all [Edge.toG2O]

/-- an SE(2) → R² landmark edge whose offset is not `np.array_equal` to the identity: `NotImplementedError`, before anything
of the edge is formatted -/
theorem refuses_landmark_se2_offset (env : Env A) (ids : List Int) (info : Mat A) (est off : Pose A) (oid : Option Int)
    (h : numEqList env off.xs (identitySE2 env) = false) :
    Edge.toG2O env .se2 (.ok .r2) ⟨ids, info, .landmark est off oid⟩ = .error .notImplementedError := by
  simp [Edge.toG2O, h]

/-- a landmark edge with an SE(3) offset that is not (equal to) the graph's `PARAMS_SE3OFFSET` parameter of its `offset_id`:
`ValueError` from the pre-check, and the file is not even opened (`toG2OTrace = none`) -/
theorem refuses_landmark_se3_unregistered (env : Env A) (g : Graph A) (e : Edge A) (he : e ∈ g.edges)
    (h : Edge.preCheck env g.params e = false) :
    Graph.toG2OTrace env g = none ∧ Graph.toG2O env g = .error .valueError := by
  have : g.edges.all (Edge.preCheck env g.params) = false := by
    rw [Bool.eq_false_iff]; intro hall
    rw [List.all_eq_true] at hall
    rw [hall e he] at h; exact Bool.noConfusion h
  simp [Graph.toG2O, Graph.toG2OTrace, this]

/-- when exactly the pre-check fails -/
theorem preCheck_false_iff (env : Env A) (params : List (Param A)) (ids : List Int) (info : Mat A) (est off : Pose A) (oid : Option Int) :
    Edge.preCheck env params ⟨ids, info, .landmark est off oid⟩ = false ↔
      off.kind = .se3 ∧ ∀ z p, oid = some z → lookupParam params .se3offset z = some p → numEqList env p.value.xs off.xs = false := by
  unfold Edge.preCheck
  by_cases hk : off.kind = .se3
  · simp only [hk, if_true, true_and]
    cases oid with
    | none => simp
    | some z =>
      cases hl : lookupParam params .se3offset z with
      | none =>
        simp only [hl, true_iff]
        intro z' p hz hp; cases hz; rw [hl] at hp; cases hp
      | some p =>
        simp only [hl]
        constructor
        · intro h z' p' hz hp; cases hz; rw [hl] at hp; cases hp; exact h
        · intro h; exact h z p rfl hl
  · simp [hk]

/-- **`refuses_inexpressible`** — if the writer returns text at all, then every vertex has one of the four classes, every
edge passed the offset pre-check, and every edge is a custom edge (user code decides what it writes) or has one of the
writable shapes of the property: odometry between SE(2) / SE(3) poses; landmark SE(2) → R² with an identity offset; landmark
SE(3) → R³ (with, by the pre-check, a registered offset).  Contrapositive: a graph containing anything else makes
`Graph.toG2O` return the modelled exception; nothing of it is written differently. -/
theorem refuses_inexpressible (env : Env A) (g : Graph A) (text : Str) (h : Graph.toG2O env g = .ok text) :
    (∀ v ∈ g.vertices, v.pose.kind ≠ .other) ∧
    (∀ e ∈ g.edges, Edge.preCheck env g.params e = true ∧
      ((∃ c est out, e.body = .custom c est out) ∨
        ∃ k0, Edge.kind0 g.vertices e = .ok k0 ∧ EdgeShape env k0 (Edge.kind1 g.vertices e) e)) := by
  obtain ⟨hpre, _, hv, he⟩ := toG2O_ok_parts env g text h
  refine ⟨fun v hvm hk => ?_, fun e hem => ⟨?_, ?_⟩⟩
  · obtain ⟨l, hl⟩ := hv v hvm
    rw [refuses_unknown_pose env v hk] at hl; cases hl
  · rw [List.all_eq_true] at hpre; exact hpre e hem
  · obtain ⟨l, hl⟩ := he e hem
    exact write_edge_shape env g.vertices e l hl

/-- the landmark edge between two SE(2) **poses** of `Ex.gLandmarkToPose` (accepted by `Graph(...)`, third example) is now
refused: `NotImplementedError`, after the two vertex lines were written (second example: nothing else is in the file) -/
example : Graph.toG2O Ex.env Ex.gLandmarkToPose = .error .notImplementedError := by decide
example : Graph.toG2OTrace Ex.env Ex.gLandmarkToPose
    = some ("VERTEX_SE2 i a a a\nVERTEX_SE2 ii aaa aa aa\n".toList, some .notImplementedError) := by decide
example : Graph.init Ex.gLandmarkToPose.params Ex.gLandmarkToPose.vertices Ex.gLandmarkToPose.edges = .ok Ex.gLandmarkToPose := by
  decide

end
end GraphSlam.Props.C13
