import GraphSlam.Props.C06.Fixed
import GraphSlam.Props.C12.Ctl

/-!
# C12 — no hidden state: splitting a run reproduces the trajectory (state level)

One iteration of the model is a function of the vertex state alone (`C06.iter`: assemble, solve — an arbitrary function
of the state — and update); nothing cached on the `Graph` object (`_chi2`, `_gradient`, `_hessian`,
`_fixed_gradient_indices`) enters it: every call of `optimize` recomputes the fixed set from the flags and every iteration
recomputes χ², `b`, `H` from the poses.  Hence `k₁` iterations followed by `k₂` iterations are `k₁ + k₂` iterations, and the
χ² sequence of the second call is the tail of the single run's (which `C12.split_run` turns into statements about the two
reports).  That the *real* object has no other state is what the harness checks (bitwise pose comparison of split and
single runs, on every run of the C12 search).
-/

namespace GraphSlam.Props.C12
open GraphSlam GraphSlam.Model GraphSlam.Props.C06

variable {E : Type} [Scalar E] {P : Type}

/-- state after `k₁ + k₂` iterations = state after `k₂` iterations started from the state after `k₁` -/
theorem split_run_state (boxplus : P → (Nat → E) → P) (fixed : List Nat) (solve : St P → (Nat → E)) (k₁ k₂ : Nat) (s : St P) :
    (iter boxplus fixed solve)^[k₁ + k₂] s = (iter boxplus fixed solve)^[k₂] ((iter boxplus fixed solve)^[k₁] s) := by
  rw [Nat.add_comm, Function.iterate_add_apply]

/-- the χ² sequence seen by the second call is the tail of the sequence of the single run -/
theorem split_run_chi2 {K : Type} (chi2 : St P → K) (boxplus : P → (Nat → E) → P) (fixed : List Nat)
    (solve : St P → (Nat → E)) (k₁ : Nat) (s : St P) (i : Nat) :
    chi2 ((iter boxplus fixed solve)^[i] ((iter boxplus fixed solve)^[k₁] s)) = chi2 ((iter boxplus fixed solve)^[k₁ + i] s) := by
  rw [Nat.add_comm, Function.iterate_add_apply]

end GraphSlam.Props.C12
