import GraphSlam.Model.Ctl
import GraphSlam.Real.Instance
import Mathlib.Tactic.Linarith
import Mathlib.Tactic.Positivity

/-!
# C12 — the report is faithful and the stopping rule is the documented one

All statements are about `Model.optimizeCtl` (the line-by-line model of graph.py:436-510, tied to the code by the
`ctl` correspondence harness which compares **every report field exactly** on the χ² sequence the real run saw).
`c i` is the χ² at the start of iteration `i`, i.e. χ² of the state after `i` updates; `c maxIter` is the final
`calc_chi2()`.  The characterisation theorems hold for **any** scalar type (they are about the control flow), so they
also cover `Float` with NaN; only `tol_zero_never_early` needs the ordered field `ℝ`.
-/

namespace GraphSlam.Props.C12
open GraphSlam GraphSlam.Model

section generic
variable {K : Type} [ScalarF K]

/-- the documented test applied between iterations `i-1` and `i` -/
def stop (tol eps : K) (c : Nat → K) (i : Nat) : Bool := stopTest tol eps (c (i - 1)) (c i)

/-- first index in `i, …, i+n-1` (and `≥ 1`) at which the test fires, else `i + n` -/
def firstStop (tol eps : K) (c : Nat → K) : Nat → Nat → Nat
  | 0, i => i
  | n + 1, i => if i > 0 ∧ stop tol eps c i = true then i else firstStop tol eps c n (i + 1)

/-- a filled `IterationResult`: χ² *after* this iteration's update and the relative change it achieved -/
def filled (eps : K) (c : Nat → K) (j : Nat) : IterResult K :=
  ⟨some (c (j + 1)), some (-(relDiff eps (c j) (c (j + 1)))), true⟩

/-- what `iteration_results` must look like when the run ends at index `k` -/
def specIters (eps : K) (c : Nat → K) (k : Nat) (early : Bool) : List (IterResult K) :=
  (List.range k).map (filled eps c) ++ (if early then [⟨none, none, false⟩] else [])

theorem setLast_append (xs : List (IterResult K)) (a : IterResult K) (f : IterResult K → IterResult K) :
    setLast (xs ++ [a]) f = xs ++ [f a] := by
  simp [setLast, List.reverse_append]

theorem setSecondLast_append (xs : List (IterResult K)) (a b : IterResult K) (x y : K) :
    setSecondLast (xs ++ [a] ++ [b]) x y = xs ++ [IterResult.mk (some x) (some y) a.complete] ++ [b] := by
  simp [setSecondLast, List.reverse_append]

/-- `iteration_results` at the top of iteration `i` (no early return so far) -/
def partialIters (eps : K) (c : Nat → K) (i : Nat) : List (IterResult K) :=
  (List.range (i - 1)).map (filled eps c) ++ (if i = 0 then [] else [⟨none, none, true⟩])

/-- the report under construction at the top of iteration `i` -/
def partialReport (eps : K) (c : Nat → K) (i : Nat) : Report K :=
  { converged := false, numIterations := none, initialChi2 := if i = 0 then none else some (c 0), finalChi2 := none,
    iters := partialIters eps c i }

theorem range_succ_map (eps : K) (c : Nat → K) (i : Nat) :
    (List.range (i + 1)).map (filled eps c) = (List.range i).map (filled eps c) ++ [filled eps c i] := by
  rw [List.range_succ, List.map_append]; rfl

/-- **loop invariant ⇒ closed form of the loop** -/
theorem ctlLoop_spec (tol eps : K) (c : Nat → K) (n : Nat) :
    ∀ (i : Nat) (prev : K), (i > 0 → prev = c (i - 1)) →
      ctlLoop tol eps c n i prev (partialReport eps c i) =
        (let k := firstStop tol eps c n i
         if k < i + n then
           Sum.inl { converged := true, numIterations := some k, initialChi2 := some (c 0), finalChi2 := some (c k),
                     iters := specIters eps c k true }
         else Sum.inr (if i + n = 0 then prev else c (i + n - 1), partialReport eps c (i + n))) := by
  induction n with
  | zero =>
    intro i prev hp
    simp only [ctlLoop, firstStop, Nat.add_zero, lt_self_iff_false, if_false]
    by_cases hi : i = 0
    · simp [hi]
    · have := hp (Nat.pos_of_ne_zero hi); simp [hi, this]
  | succ n ih =>
    intro i prev hp
    by_cases hi : i = 0
    · subst hi
      have h1 := ih 1 (c 0) (fun _ => rfl)
      simp only [ctlLoop, firstStop, Nat.lt_irrefl, false_and, if_false, gt_iff_lt, zero_add]
      have hrep : ({ ({ ({ partialReport eps c 0 with iters := (partialReport eps c 0).iters ++ [IterResult.mk none none false] } : Report K) with
            initialChi2 := some (c 0) } : Report K) with
            iters := setLast (({ ({ partialReport eps c 0 with iters := (partialReport eps c 0).iters ++ [IterResult.mk none none false] } : Report K) with
              initialChi2 := some (c 0) } : Report K)).iters (fun r => { r with complete := true }) } : Report K)
          = partialReport eps c 1 := by
        simp [partialReport, partialIters, setLast]
      rw [hrep, h1]
      have e1 : 1 + n = 0 + (n + 1) := by omega
      simp only [e1]
      have : (0 + (n + 1) = 0) = False := by simp
      simp
    · have hpos : i > 0 := Nat.pos_of_ne_zero hi
      have hprev := hp hpos
      subst hprev
      simp only [ctlLoop, firstStop, hpos, if_true, true_and, gt_iff_lt]
      have hiters : partialIters eps c i ++ [IterResult.mk none none false]
          = (List.range (i - 1)).map (filled eps c) ++ [⟨none, none, true⟩] ++ [⟨none, none, false⟩] := by
        simp [partialIters, hi]
      have hiters' : (partialReport eps c i).iters = partialIters eps c i := rfl
      have hfill : IterResult.mk (some (c i)) (some (-(relDiff eps (c (i - 1)) (c i)))) (IterResult.mk (K := K) none none true).complete
          = filled eps c (i - 1) := by
        have : i - 1 + 1 = i := by omega
        simp [filled, this]
      have hmap : (List.range (i - 1)).map (filled eps c) ++ [filled eps c (i - 1)] = (List.range i).map (filled eps c) := by
        have : i = (i - 1) + 1 := by omega
        conv_rhs => rw [this, range_succ_map]
      by_cases hs : stop tol eps c i = true
      · have hs' : stopTest tol eps (c (i - 1)) (c i) = true := hs
        simp only [hs, hs', if_true]
        have hk : i < i + (n + 1) := by omega
        simp only [hk, if_true]
        congr 1
        simp only [partialReport, hi, if_false, specIters, if_true]
        rw [hiters, setSecondLast_append, hfill, hmap]
      · have hs' : ¬ (stopTest tol eps (c (i - 1)) (c i) = true) := hs
        simp only [hs, hs', if_false]
        have h1 := ih (i + 1) (c i) (fun _ => by simp)
        have hrep : ({ ({ ({ partialReport eps c i with iters := (partialReport eps c i).iters ++ [IterResult.mk none none false] } : Report K) with
              iters := setSecondLast (({ partialReport eps c i with iters := (partialReport eps c i).iters ++ [IterResult.mk none none false] } : Report K)).iters
                (c i) (-(relDiff eps (c (i - 1)) (c i))) } : Report K) with
              iters := setLast (({ ({ partialReport eps c i with iters := (partialReport eps c i).iters ++ [IterResult.mk none none false] } : Report K) with
                iters := setSecondLast (({ partialReport eps c i with iters := (partialReport eps c i).iters ++ [IterResult.mk none none false] } : Report K)).iters
                  (c i) (-(relDiff eps (c (i - 1)) (c i))) } : Report K)).iters (fun r => { r with complete := true }) } : Report K)
            = partialReport eps c (i + 1) := by
          simp only [hiters', hiters, setSecondLast_append, hfill, hmap, setLast_append]
          simp [partialReport, partialIters, hi]
        rw [hrep, h1]
        have e1 : i + 1 + n = i + (n + 1) := by omega
        simp only [e1]
        simp

theorem partialReport_zero (eps : K) (c : Nat → K) : partialReport eps c 0 = Report.mk false none none none [] := by
  simp [partialReport, partialIters]

/-- the index at which the run ends -/
def endIndex (tol eps : K) (c : Nat → K) (maxIter : Nat) : Nat := firstStop tol eps c maxIter 0

/-- **Closed form of the whole report** (for `max_iter ≥ 1`). -/
theorem optimizeCtl_spec (tol eps : K) (c : Nat → K) (maxIter : Nat) (hm : 0 < maxIter) :
    optimizeCtl tol eps maxIter c =
      (let k := endIndex tol eps c maxIter
       .ok { converged := if k < maxIter then true else stop tol eps c maxIter,
             numIterations := some k, initialChi2 := some (c 0), finalChi2 := some (c k),
             iters := specIters eps c k (decide (k < maxIter)) }) := by
  unfold optimizeCtl
  have h := ctlLoop_spec tol eps c maxIter 0 (Scalar.ofInt (-1)) (fun h => absurd h (Nat.lt_irrefl 0))
  rw [partialReport_zero] at h
  rw [h]
  simp only [zero_add, endIndex]
  by_cases hk : firstStop tol eps c maxIter 0 < maxIter
  · simp [hk]
  · simp only [hk, if_false]
    have hne : maxIter ≠ 0 := Nat.pos_iff_ne_zero.mp hm
    have hge : ∀ n i, i ≤ firstStop tol eps c n i ∧ firstStop tol eps c n i ≤ i + n := by
      intro n; induction n with
      | zero => intro i; simp [firstStop]
      | succ n ih =>
        intro i; simp only [firstStop]; split
        · omega
        · have := ih (i + 1); omega
    have hkeq : firstStop tol eps c maxIter 0 = maxIter := by have := hge maxIter 0; omega
    simp only [hne, if_false, partialReport, partialIters]
    have hiters : ((List.range (maxIter - 1)).map (filled eps c) ++ [(⟨none, none, true⟩ : IterResult K)]).isEmpty = false := by
      simp
    simp only [hiters, Bool.false_eq_true, if_false]
    rw [setLast_append]
    have hm1 : maxIter - 1 + 1 = maxIter := by omega
    have hfill : IterResult.mk (some (c maxIter)) (some (-(relDiff eps (c (maxIter - 1)) (c maxIter)))) (IterResult.mk (K := K) none none true).complete
        = filled eps c (maxIter - 1) := by
      simp [filled, hm1]
    rw [hfill]
    have hmap : (List.range (maxIter - 1)).map (filled eps c) ++ [filled eps c (maxIter - 1)]
        = (List.range maxIter).map (filled eps c) := by
      conv_rhs => rw [← hm1, range_succ_map]
    rw [hmap, hkeq]
    simp [specIters, stop]

/-- `max_iter = 0` raises `IndexError` (graph.py:503 `iteration_results[-1]`) -/
theorem optimizeCtl_zero (tol eps : K) (c : Nat → K) : optimizeCtl tol eps 0 c = .error .indexError := by
  simp [optimizeCtl, ctlLoop]

/-! ### what the closed form says, clause by clause -/

theorem firstStop_bounds (tol eps : K) (c : Nat → K) : ∀ n i, i ≤ firstStop tol eps c n i ∧ firstStop tol eps c n i ≤ i + n := by
  intro n; induction n with
  | zero => intro i; simp [firstStop]
  | succ n ih =>
    intro i; simp only [firstStop]; split
    · omega
    · have := ih (i + 1); omega

/-- no earlier index fired -/
theorem firstStop_min (tol eps : K) (c : Nat → K) : ∀ n i j, i ≤ j → j < firstStop tol eps c n i → 0 < j →
    stop tol eps c j = false := by
  intro n; induction n with
  | zero => intro i j h1 h2 _; simp [firstStop] at h2; omega
  | succ n ih =>
    intro i j h1 h2 hj
    simp only [firstStop] at h2
    split at h2
    · omega
    · rename_i hns
      by_cases hij : i = j
      · subst hij
        have : ¬ (stop tol eps c i = true) := fun h => hns ⟨hj, h⟩
        simpa using this
      · exact ih (i + 1) j (by omega) h2 hj

/-- if the run ended before `i + n`, the test fired there -/
theorem firstStop_fires (tol eps : K) (c : Nat → K) : ∀ n i, firstStop tol eps c n i < i + n →
    0 < firstStop tol eps c n i ∧ stop tol eps c (firstStop tol eps c n i) = true := by
  intro n; induction n with
  | zero => intro i h; simp [firstStop] at h
  | succ n ih =>
    intro i h
    simp only [firstStop] at h ⊢
    split
    · rename_i hs; exact hs
    · rename_i hs
      simp only [hs, if_false] at h
      exact ih (i + 1) (by omega)

/-- **The run stops at the first iteration whose χ² did not increase and whose relative decrease is below `tol`,
    otherwise at `max_iter`.** -/
theorem stops_at_first (tol eps : K) (c : Nat → K) (maxIter : Nat) (hm : 0 < maxIter) :
    1 ≤ endIndex tol eps c maxIter ∧ endIndex tol eps c maxIter ≤ maxIter ∧
      (∀ j, 0 < j → j < endIndex tol eps c maxIter → stop tol eps c j = false) ∧
      (endIndex tol eps c maxIter < maxIter → stop tol eps c (endIndex tol eps c maxIter) = true) := by
  unfold endIndex
  have hb := firstStop_bounds tol eps c maxIter 0
  have hk1 : 1 ≤ firstStop tol eps c maxIter 0 := by
    by_cases h : firstStop tol eps c maxIter 0 < 0 + maxIter
    · exact (firstStop_fires tol eps c maxIter 0 h).1
    · omega
  refine ⟨hk1, by simpa using hb.2, ?_, ?_⟩
  · intro j hj hjk; exact firstStop_min tol eps c maxIter 0 j (Nat.zero_le _) hjk hj
  · intro h; exact (firstStop_fires tol eps c maxIter 0 (by simpa using h)).2

/-- `converged`, `num_iterations`, `initial_chi2`, `final_chi2` and `len(iteration_results)` report exactly that -/
theorem report_fields (tol eps : K) (c : Nat → K) (maxIter : Nat) (hm : 0 < maxIter) :
    ∃ r, optimizeCtl tol eps maxIter c = .ok r ∧
       r.numIterations = some (endIndex tol eps c maxIter) ∧
       (r.converged = true ↔ stop tol eps c (endIndex tol eps c maxIter) = true) ∧
       r.initialChi2 = some (c 0) ∧
       r.finalChi2 = some (c (endIndex tol eps c maxIter)) ∧
       r.iters.length = (if endIndex tol eps c maxIter < maxIter then endIndex tol eps c maxIter + 1 else maxIter) ∧
       (∀ j, j < endIndex tol eps c maxIter → r.iters[j]? = some (filled eps c j)) := by
  refine ⟨_, optimizeCtl_spec tol eps c maxIter hm, ?_⟩
  obtain ⟨hk1, hk2, _, hfire⟩ := stops_at_first tol eps c maxIter hm
  generalize endIndex tol eps c maxIter = k at *
  refine ⟨rfl, ?_, rfl, rfl, ?_, ?_⟩
  · by_cases h : k < maxIter
    · simp only [h, if_true]; exact ⟨fun _ => hfire h, fun _ => trivial⟩
    · have : k = maxIter := by omega
      subst this
      simp
  · by_cases h : k < maxIter
    · simp [specIters, h]
    · have : k = maxIter := by omega
      simp [specIters, this]
  · intro j hj
    simp only [specIters]
    rw [List.getElem?_append_left (by simpa using hj)]
    simp [hj]

end generic

/-! ### over the reals -/

/-- with `tol = 0` and non-negative χ² (positive semi-definite information) the run never stops early -/
theorem tol_zero_never_early (eps : ℝ) (heps : 0 < eps) (c : Nat → ℝ) (hc : ∀ i, 0 ≤ c i) (maxIter : Nat) :
    endIndex (0 : ℝ) eps c maxIter = maxIter := by
  have hno : ∀ j, stop (0 : ℝ) eps c j = false := by
    intro j
    simp only [stop, stopTest, Model.le, Model.lt, relDiff]
    by_cases h1 : c j ≤ c (j - 1)
    · have hden : 0 < c (j - 1) + eps := by have := hc (j - 1); linarith
      have hnum : 0 ≤ c (j - 1) - c j := by linarith
      have : ¬ ((c (j - 1) - c j) / (c (j - 1) + eps) < 0) := not_lt.mpr (div_nonneg hnum hden.le)
      have h2 : (ScalarF.gt (0 : ℝ) (ScalarF.div (c (j - 1) - c j) (c (j - 1) + eps))) = false := by
        rw [Bool.eq_false_iff]; intro h; rw [real_gt, real_div] at h; exact this h
      rw [h2]; simp
    · have h2 : (ScalarF.ge (c (j - 1)) (c j)) = false := by
        rw [Bool.eq_false_iff]; intro h; rw [real_ge] at h; exact h1 h
      simp [h2]
  have : ∀ n i, firstStop (0 : ℝ) eps c n i = i + n := by
    intro n; induction n with
    | zero => intro i; simp [firstStop]
    | succ n ih => intro i; simp only [firstStop, hno, Bool.false_eq_true, and_false, if_false]; rw [ih]; omega
  simpa [endIndex] using this maxIter 0

/-- **splitting a run (`tol = 0`)**: a run of `k₁` iterations followed by a run of `k₂` iterations started from the
    state the first run returned consumes exactly the χ² values of one run of `k₁ + k₂` iterations: the second run's
    sequence is the tail `c (k₁ + ·)`, its `initial_chi2` is the first run's `final_chi2`, and its `final_chi2` is the
    single run's. -/
theorem split_run (eps : ℝ) (heps : 0 < eps) (c : Nat → ℝ) (hc : ∀ i, 0 ≤ c i) (k₁ k₂ : Nat) (h1 : 0 < k₁) (h2 : 0 < k₂) :
    ∃ r₁ r₂ r, optimizeCtl (0 : ℝ) eps k₁ c = .ok r₁ ∧ optimizeCtl (0 : ℝ) eps k₂ (fun i => c (k₁ + i)) = .ok r₂ ∧
      optimizeCtl (0 : ℝ) eps (k₁ + k₂) c = .ok r ∧
      r₁.numIterations = some k₁ ∧ r₂.numIterations = some k₂ ∧ r.numIterations = some (k₁ + k₂) ∧
      r₂.initialChi2 = r₁.finalChi2 ∧ r₂.finalChi2 = r.finalChi2 ∧ r₁.initialChi2 = r.initialChi2 := by
  have e1 := tol_zero_never_early eps heps c hc k₁
  have e2 := tol_zero_never_early eps heps (fun i => c (k₁ + i)) (fun i => hc _) k₂
  have e := tol_zero_never_early eps heps c hc (k₁ + k₂)
  refine ⟨_, _, _, optimizeCtl_spec 0 eps c k₁ h1, optimizeCtl_spec 0 eps _ k₂ h2,
    optimizeCtl_spec 0 eps c (k₁ + k₂) (by omega), ?_, ?_, ?_, ?_, ?_, ?_⟩
  · simp [e1]
  · simp [e2]
  · simp [e]
  · simp [e1]
  · simp [e2, e]
  · simp

/-- non-vacuity: a strictly decreasing then flat sequence stops early at the plateau -/
example : endIndex (0.1 : ℝ) 1e-16 (fun i => if i = 0 then 10 else 1) 5 = 2 := by
  simp only [endIndex, firstStop, stop, stopTest, Model.le, Model.lt, relDiff]
  norm_num [real_ge, real_gt, real_div]

end GraphSlam.Props.C12
