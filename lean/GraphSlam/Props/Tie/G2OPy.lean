import GraphSlam.Generated.G2OPy
import GraphSlam.Props.Tie.G2OInterp

/-!
# Kernel-checked tie between the hand-written `.g2o` model and the reader / writer statements of the current source

`GraphSlam/Generated/G2OPy.lean` is regenerated on every run by `tools/translate/py2lean_g2o.py` from the AST of
`vertex.py`, `edge/edge_odometry.py`, `edge/edge_landmark.py`, `g2o_parameters.py`, `graph.py`, `load.py`, `util.py` and the four
pose classes: per line kind the format string and the order of its arguments, the `startswith` / `len` literals, the statements of
the `from_g2o` branch in evaluation order (token positions of `int()` / `float()`, pose constructor and the slices of `arr` it
receives, `normalize()`, the slice and size given to `upper_triangular_matrix_to_full_matrix`, the parameter lookup), the order of the
branches, of the write loops and of the read attempts, the messages, the `k` of `np.triu_indices` / `np.tril_indices`, and the array
literals of the pose constructors.  `Props/Tie/G2OInterp.lean` gives these data the meaning of the Python statements.

The theorems below state that every printer and parser of the hand-written model (`Model/G2O/Print.lean`, `Parse.lean`, `Triu.lean`,
`Tags.lean`) *is* that interpretation of the regenerated data, for every environment, object and line.  A change of the source that
alters a tag, swaps two written fields, reads a quantity from another token position, drops `normalize()`, reorders the sections ...
changes the generated definition and the corresponding theorem stops checking (a broken tie; `./check` then searches the
implementation for a failing input).  Mathlib-free.
-/

namespace GraphSlam.Props.Tie.G2O
open GraphSlam.Model.G2O GraphSlam.G2OSpec GraphSlam.Gen

variable {A : Type}

/-! ### the regenerated data, bundled -/

/-- `__new__` of the four pose classes as found in `pose/*.py` -/
def sourceCtors : Cls → PoseCtor
  | .PoseR2 => G2OPy.PoseR2_new
  | .PoseR3 => G2OPy.PoseR3_new
  | .PoseSE2 => G2OPy.PoseSE2_new
  | .PoseSE3 => G2OPy.PoseSE3_new

/-- the writer side of the current source -/
def writerSource : WriterSource where
  vertex := G2OPy.Vertex_to_g2o
  odometry := G2OPy.EdgeOdometry_to_g2o
  landmark := G2OPy.EdgeLandmark_to_g2o
  paramSE2 := G2OPy.PARAMS_SE2OFFSET.writer
  paramSE3 := G2OPy.PARAMS_SE3OFFSET.writer
  sections := G2OPy.Graph_to_g2o_sections
  precheckTag := G2OPy.Graph_to_g2o_precheck_tag

/-- the reader side of the current source -/
def readerSource : ReaderSource where
  ctors := sourceCtors
  vertex := G2OPy.Vertex_from_g2o
  odometry := G2OPy.EdgeOdometry_from_g2o
  landmark := G2OPy.EdgeLandmark_from_g2o
  paramReader
    | .G2OParameterSE2Offset => G2OPy.PARAMS_SE2OFFSET.reader
    | .G2OParameterSE3Offset => G2OPy.PARAMS_SE3OFFSET.reader
  paramTypes := G2OPy.Graph_from_g2o_param_types
  attempts := G2OPy.Graph_from_g2o_attempts

/-! ### tags -/

/-- the ten tags of the model's vocabulary are the first words of the format strings the source writes -/
theorem tags_written_are_source :
    T.vertexXY = G2OPy.VERTEX_XY.tag.toList ∧ T.vertexTrackXYZ = G2OPy.VERTEX_TRACKXYZ.tag.toList ∧
    T.vertexSE2 = G2OPy.VERTEX_SE2.tag.toList ∧ T.vertexSE3 = G2OPy.VERTEX_SE3_QUAT.tag.toList ∧
    T.edgeSE2 = G2OPy.EDGE_SE2.tag.toList ∧ T.edgeSE3 = G2OPy.EDGE_SE3_QUAT.tag.toList ∧
    T.edgeSE2XY = G2OPy.EDGE_SE2_XY.tag.toList ∧ T.edgeSE3TrackXYZ = G2OPy.EDGE_SE3_TRACKXYZ.tag.toList ∧
    T.paramsSE2Offset = G2OPy.PARAMS_SE2OFFSET.tag.toList ∧ T.paramsSE3Offset = G2OPy.PARAMS_SE3OFFSET.tag.toList := by
  decide

/-- `tag + " "` of the model is the literal of `line.startswith(...)` in the source, for every line kind -/
theorem tags_tested_are_source :
    withSp T.vertexXY = G2OPy.VERTEX_XY.reader.pfx.toList ∧ withSp T.vertexTrackXYZ = G2OPy.VERTEX_TRACKXYZ.reader.pfx.toList ∧
    withSp T.vertexSE2 = G2OPy.VERTEX_SE2.reader.pfx.toList ∧ withSp T.vertexSE3 = G2OPy.VERTEX_SE3_QUAT.reader.pfx.toList ∧
    withSp T.edgeSE2 = G2OPy.EDGE_SE2.reader.pfx.toList ∧ withSp T.edgeSE3 = G2OPy.EDGE_SE3_QUAT.reader.pfx.toList ∧
    withSp T.edgeSE2XY = G2OPy.EDGE_SE2_XY.reader.pfx.toList ∧ withSp T.edgeSE3TrackXYZ = G2OPy.EDGE_SE3_TRACKXYZ.reader.pfx.toList ∧
    withSp T.paramsSE2Offset = G2OPy.PARAMS_SE2OFFSET.reader.pfx.toList ∧ withSp T.paramsSE3Offset = G2OPy.PARAMS_SE3OFFSET.reader.pfx.toList := by
  decide

/-- the number of characters the model drops before splitting (`len(tag) + 1`) is the length of the literal inside
`line[len(...):]` in the source, for every line kind -/
theorem tags_skipped_are_source :
    T.vertexXY.length + 1 = G2OPy.VERTEX_XY.reader.skip.toList.length ∧ T.vertexTrackXYZ.length + 1 = G2OPy.VERTEX_TRACKXYZ.reader.skip.toList.length ∧
    T.vertexSE2.length + 1 = G2OPy.VERTEX_SE2.reader.skip.toList.length ∧ T.vertexSE3.length + 1 = G2OPy.VERTEX_SE3_QUAT.reader.skip.toList.length ∧
    T.edgeSE2.length + 1 = G2OPy.EDGE_SE2.reader.skip.toList.length ∧ T.edgeSE3.length + 1 = G2OPy.EDGE_SE3_QUAT.reader.skip.toList.length ∧
    T.edgeSE2XY.length + 1 = G2OPy.EDGE_SE2_XY.reader.skip.toList.length ∧ T.edgeSE3TrackXYZ.length + 1 = G2OPy.EDGE_SE3_TRACKXYZ.reader.skip.toList.length ∧
    T.paramsSE2Offset.length + 1 = G2OPy.PARAMS_SE2OFFSET.reader.skip.toList.length ∧ T.paramsSE3Offset.length + 1 = G2OPy.PARAMS_SE3OFFSET.reader.skip.toList.length := by
  decide

/-- every format string of the source lies in the fragment of `str.format` that `pyFormat` models (braces only as `{}`) -/
theorem formats_plain :
    (G2OPy.Vertex_to_g2o.all fun w => plainFields w.fmt.toList) = true ∧
    ((G2OPy.EdgeOdometry_to_g2o ++ G2OPy.EdgeLandmark_to_g2o).all fun w => plainFields w.fmt.toList) = true ∧
    plainFields G2OPy.PARAMS_SE2OFFSET.writer.fmt.toList = true ∧ plainFields G2OPy.PARAMS_SE3OFFSET.writer.fmt.toList = true := by
  simp only [G2OPy.Vertex_to_g2o, G2OPy.EdgeOdometry_to_g2o, G2OPy.EdgeLandmark_to_g2o, G2OPy.VERTEX_XY.writer, G2OPy.VERTEX_TRACKXYZ.writer,
    G2OPy.VERTEX_SE2.writer, G2OPy.VERTEX_SE3_QUAT.writer, G2OPy.EDGE_SE2.writer, G2OPy.EDGE_SE3_QUAT.writer, G2OPy.EDGE_SE2_XY.writer,
    G2OPy.EDGE_SE3_TRACKXYZ.writer, G2OPy.PARAMS_SE2OFFSET.writer, G2OPy.PARAMS_SE3OFFSET.writer, List.all_cons, List.all_nil,
    List.cons_append, List.nil_append, String.reduceToList]
  decide

/-- the tag under which the pre-check of `Graph.to_g2o` and `EdgeLandmark.from_g2o` look the offset up, and the tags the
parameter readers put into the key, name the parameter classes the model uses at these places -/
theorem param_key_tags_are_source :
    paramKindOfTag G2OPy.Graph_to_g2o_precheck_tag.toList = some .se3offset ∧
    G2OPy.EDGE_SE3_TRACKXYZ.reader.steps.filterMap (fun s => match s with | .offsetFromParams t => paramKindOfTag t.toList | _ => none) = [.se3offset] ∧
    (match G2OPy.PARAMS_SE2OFFSET.reader.ctor with | .param t => paramKindOfTag t.toList | _ => none) = some .se2offset ∧
    (match G2OPy.PARAMS_SE3OFFSET.reader.ctor with | .param t => paramKindOfTag t.toList | _ => none) = some .se3offset := by
  decide

/-! ### pose constructors: the model's `mkSE2` / `mkSE3` / plain arrays are the regenerated `__new__` applied to the
regenerated argument expressions -/

theorem pose_R_whole (env : Env A) (arr : List A) :
    evalPose env sourceCtors arr .PoseR2 [.whole] = .ok ⟨.r2, arr⟩ ∧ evalPose env sourceCtors arr .PoseR3 [.whole] = .ok ⟨.r3, arr⟩ := by
  constructor <;> rfl

theorem pose_R2_take (env : Env A) (arr : List A) :
    evalPose env sourceCtors arr .PoseR2 [.slice 0 (some 2)] = .ok ⟨.r2, arr.take 2⟩ := rfl

theorem pose_R3_take (env : Env A) (arr : List A) :
    evalPose env sourceCtors arr .PoseR3 [.slice 0 (some 3)] = .ok ⟨.r3, arr.take 3⟩ := rfl

/-- `PoseSE2(arr[:2], arr[2])` -/
theorem pose_SE2_slice (env : Env A) (arr : List A) :
    evalPose env sourceCtors arr .PoseSE2 [.slice 0 (some 2), .index 2] = mkSE2 env arr := by
  rcases arr with _ | ⟨a0, _ | ⟨a1, _ | ⟨a2, rest⟩⟩⟩ <;>
  simp [evalPose, mapE, evalArg, applyCtor, evalEntry, getIdx, mkSE2, sourceCtors, G2OPy.PoseSE2_new, kindOf]

/-- `PoseSE2([arr[0], arr[1]], arr[2])` -/
theorem pose_SE2_list (env : Env A) (arr : List A) :
    evalPose env sourceCtors arr .PoseSE2 [.list [0, 1], .index 2] = mkSE2 env arr := by
  rcases arr with _ | ⟨a0, _ | ⟨a1, _ | ⟨a2, rest⟩⟩⟩ <;>
  simp [evalPose, mapE, evalArg, applyCtor, evalEntry, getIdx, mkSE2, sourceCtors, G2OPy.PoseSE2_new, kindOf]

/-- `PoseSE3(arr[:3], arr[3:])` -/
theorem pose_SE3_open (env : Env A) (arr : List A) :
    evalPose env sourceCtors arr .PoseSE3 [.slice 0 (some 3), .slice 3 none] = mkSE3 arr := by
  rcases arr with _ | ⟨a0, _ | ⟨a1, _ | ⟨a2, _ | ⟨a3, _ | ⟨a4, _ | ⟨a5, _ | ⟨a6, rest⟩⟩⟩⟩⟩⟩⟩ <;>
  simp [evalPose, mapE, evalArg, applyCtor, evalEntry, getIdx, mkSE3, sourceCtors, G2OPy.PoseSE3_new, kindOf]

/-- `PoseSE3(arr[:3], arr[3:7])` -/
theorem pose_SE3_closed (env : Env A) (arr : List A) :
    evalPose env sourceCtors arr .PoseSE3 [.slice 0 (some 3), .slice 3 (some 7)] = mkSE3 arr := by
  rcases arr with _ | ⟨a0, _ | ⟨a1, _ | ⟨a2, _ | ⟨a3, _ | ⟨a4, _ | ⟨a5, _ | ⟨a6, rest⟩⟩⟩⟩⟩⟩⟩ <;>
  simp [evalPose, mapE, evalArg, applyCtor, evalEntry, getIdx, mkSE3, sourceCtors, G2OPy.PoseSE3_new, kindOf]

/-! ### readers, one theorem per line kind -/

/-- case analysis on an `Except`-valued subterm of the goal: the error case closes by `rfl`, the `ok` case continues -/
local macro "ecases " t:term : tactic =>
  `(tactic| (generalize $t = x; rcases x with e | v; exact rfl; simp only []))

/-- the last such case analysis: both cases close by `rfl` -/
local macro "ecases! " t:term : tactic =>
  `(tactic| (generalize $t = x; rcases x with e | v <;> rfl))

/-- `VERTEX_XY` (vertex.py:121-125): the model's branch is the regenerated statement list
`arr = [float(..) for numbers[1:]]; p = PoseR2(arr); cls(int(numbers[0]), p)` -/
theorem read_VERTEX_XY (env : Env A) (params : List (Param A)) (line : Str) :
    Except.map LineOut.vertex (Vertex.from_vertexXY env line) = runReader env sourceCtors params G2OPy.VERTEX_XY.reader line := by
  unfold runReader Vertex.from_vertexXY numbersOf
  rw [← tags_skipped_are_source.1]
  generalize splitWS _ = numbers
  simp only [G2OPy.VERTEX_XY.reader, runBody, runSteps, step, (pose_R_whole _ _).1]
  ecases floats env _
  ecases! pyInt env _ 0

/-- `VERTEX_TRACKXYZ` (vertex.py:128-132) -/
theorem read_VERTEX_TRACKXYZ (env : Env A) (params : List (Param A)) (line : Str) :
    Except.map LineOut.vertex (Vertex.from_vertexTrackXYZ env line) = runReader env sourceCtors params G2OPy.VERTEX_TRACKXYZ.reader line := by
  unfold runReader Vertex.from_vertexTrackXYZ numbersOf
  rw [← tags_skipped_are_source.2.1]
  generalize splitWS _ = numbers
  simp only [G2OPy.VERTEX_TRACKXYZ.reader, runBody, runSteps, step, (pose_R_whole _ _).2]
  ecases floats env _
  ecases! pyInt env _ 0

/-- `VERTEX_SE2` (vertex.py:135-139): floats from token 1, `PoseSE2(arr[:2], arr[2])`, then `int(numbers[0])` -/
theorem read_VERTEX_SE2 (env : Env A) (params : List (Param A)) (line : Str) :
    Except.map LineOut.vertex (Vertex.from_vertexSE2 env line) = runReader env sourceCtors params G2OPy.VERTEX_SE2.reader line := by
  unfold runReader Vertex.from_vertexSE2 numbersOf
  rw [← tags_skipped_are_source.2.2.1]
  generalize splitWS _ = numbers
  simp only [G2OPy.VERTEX_SE2.reader, runBody, runSteps, step, pose_SE2_slice]
  ecases floats env _
  ecases mkSE2 env _
  ecases! pyInt env _ 0

/-- `VERTEX_SE3:QUAT` (vertex.py:142-146): `PoseSE3(arr[:3], arr[3:])`, no `normalize()` -/
theorem read_VERTEX_SE3_QUAT (env : Env A) (params : List (Param A)) (line : Str) :
    Except.map LineOut.vertex (Vertex.from_vertexSE3 env line) = runReader env sourceCtors params G2OPy.VERTEX_SE3_QUAT.reader line := by
  unfold runReader Vertex.from_vertexSE3 numbersOf
  rw [← tags_skipped_are_source.2.2.2.1]
  generalize splitWS _ = numbers
  simp only [G2OPy.VERTEX_SE3_QUAT.reader, runBody, runSteps, step, pose_SE3_open]
  ecases floats env _
  ecases mkSE3 _
  ecases! pyInt env _ 0

/-- `EDGE_SE2` (edge_odometry.py:145-151): floats from token 2, `int(numbers[0])`, `int(numbers[1])`, `PoseSE2(arr[:2], arr[2])`,
information from `arr[3:]` with `n = 3` -/
theorem read_EDGE_SE2 (env : Env A) (params : List (Param A)) (line : Str) :
    Except.map LineOut.edge (EdgeOdometry.from_edgeSE2 env line) = runReader env sourceCtors params G2OPy.EDGE_SE2.reader line := by
  unfold runReader EdgeOdometry.from_edgeSE2 numbersOf
  rw [← tags_skipped_are_source.2.2.2.2.1]
  generalize splitWS _ = numbers
  simp only [G2OPy.EDGE_SE2.reader, runBody, runSteps, step, mapE, pose_SE2_slice]
  ecases floats env _
  ecases pyInt env _ 0
  ecases pyInt env _ 1
  ecases mkSE2 env _
  ecases! expandTriu _ _ _

/-- `EDGE_SE3:QUAT` (edge_odometry.py:153-160): `PoseSE3(arr[:3], arr[3:7])`, **`estimate.normalize()`**, information from
`arr[7:]` with `n = 6` -/
theorem read_EDGE_SE3_QUAT (env : Env A) (params : List (Param A)) (line : Str) :
    Except.map LineOut.edge (EdgeOdometry.from_edgeSE3 env line) = runReader env sourceCtors params G2OPy.EDGE_SE3_QUAT.reader line := by
  unfold runReader EdgeOdometry.from_edgeSE3 numbersOf
  rw [← tags_skipped_are_source.2.2.2.2.2.1]
  generalize splitWS _ = numbers
  simp only [G2OPy.EDGE_SE3_QUAT.reader, runBody, runSteps, step, mapE, pose_SE3_closed]
  ecases floats env _
  ecases pyInt env _ 0
  ecases pyInt env _ 1
  ecases mkSE3 _
  ecases! expandTriu _ _ _

/-- `EDGE_SE2_XY` (edge_landmark.py:179-186): `PoseR2(arr[:2])`, information from `arr[2:]` with `n = 2`, the offset is
`PoseSE2.identity()` with `offset_id = 0` -/
theorem read_EDGE_SE2_XY (env : Env A) (params : List (Param A)) (line : Str) :
    Except.map LineOut.edge (EdgeLandmark.from_edgeSE2XY env params line) = runReader env sourceCtors params G2OPy.EDGE_SE2_XY.reader line := by
  unfold runReader EdgeLandmark.from_edgeSE2XY numbersOf
  rw [← tags_skipped_are_source.2.2.2.2.2.2.1]
  generalize splitWS _ = numbers
  simp only [G2OPy.EDGE_SE2_XY.reader, runBody, runSteps, step, mapE, pose_R2_take]
  ecases floats env _
  ecases pyInt env _ 0
  ecases pyInt env _ 1
  ecases! expandTriu _ _ _

/-- `EDGE_SE3_TRACKXYZ` (edge_landmark.py:188-197): floats from token 3, vertex ids from tokens 0 and 1, the offset id from
token 2, the offset looked up under `("PARAMS_SE3OFFSET", offset_id)` (`KeyError` when absent), `PoseR3(arr[:3])`, information from
`arr[3:]` with `n = 3` -/
theorem read_EDGE_SE3_TRACKXYZ (env : Env A) (params : List (Param A)) (line : Str) :
    Except.map LineOut.edge (EdgeLandmark.from_edgeSE3TrackXYZ env params line) = runReader env sourceCtors params G2OPy.EDGE_SE3_TRACKXYZ.reader line := by
  unfold runReader EdgeLandmark.from_edgeSE3TrackXYZ numbersOf
  rw [← tags_skipped_are_source.2.2.2.2.2.2.2.1]
  generalize splitWS _ = numbers
  have hk : paramKindOfTag "PARAMS_SE3OFFSET".toList = some .se3offset := by decide
  simp only [G2OPy.EDGE_SE3_TRACKXYZ.reader, runBody, runSteps, step, mapE, pose_R3_take, hk]
  ecases floats env _
  ecases pyInt env _ 0
  ecases pyInt env _ 1
  ecases pyInt env _ 2
  generalize lookupParam params _ _ = x
  rcases x with _ | p
  · rfl
  simp only []
  ecases! expandTriu _ _ _

/-- `PARAMS_SE2OFFSET` (g2o_parameters.py:104-109): here `int(numbers[0])` is evaluated **before** the pose
`PoseSE2([arr[0], arr[1]], arr[2])` -/
theorem read_PARAMS_SE2OFFSET (env : Env A) (params : List (Param A)) (line : Str) :
    Except.map LineOut.param (Param.from_paramsSE2Offset env line) = runReader env sourceCtors params G2OPy.PARAMS_SE2OFFSET.reader line := by
  unfold runReader Param.from_paramsSE2Offset numbersOf
  rw [← tags_skipped_are_source.2.2.2.2.2.2.2.2.1]
  generalize splitWS _ = numbers
  have hk : paramKindOfTag "PARAMS_SE2OFFSET".toList = some .se2offset := by decide
  simp only [G2OPy.PARAMS_SE2OFFSET.reader, runBody, runSteps, step, pose_SE2_list]
  ecases floats env _
  ecases pyInt env _ 0
  generalize mkSE2 env _ = x
  rcases x with e | v
  · rfl
  simp only [build, hk]
  rfl

/-- `PARAMS_SE3OFFSET` (g2o_parameters.py:159-165): `PoseSE3(arr[:3], arr[3:])`, no `normalize()` -/
theorem read_PARAMS_SE3OFFSET (env : Env A) (params : List (Param A)) (line : Str) :
    Except.map LineOut.param (Param.from_paramsSE3Offset env line) = runReader env sourceCtors params G2OPy.PARAMS_SE3OFFSET.reader line := by
  unfold runReader Param.from_paramsSE3Offset numbersOf
  rw [← tags_skipped_are_source.2.2.2.2.2.2.2.2.2]
  generalize splitWS _ = numbers
  have hk : paramKindOfTag "PARAMS_SE3OFFSET".toList = some .se3offset := by decide
  simp only [G2OPy.PARAMS_SE3OFFSET.reader, runBody, runSteps, step, pose_SE3_open]
  ecases floats env _
  ecases pyInt env _ 0
  generalize mkSE3 _ = x
  rcases x with e | v
  · rfl
  simp only [build, hk]
  rfl

/-! ### readers, one theorem per `from_g2o` method: the branches in the order of the source -/

theorem someE_map {α β : Type} (f : α → β) (x : Except PyErr α) :
    Except.map (Option.map f) (someE x) = someE (Except.map f x) := by
  cases x <;> rfl

/-- `Vertex.from_g2o` (vertex.py:106-149): the model tries the four tags in the order of the source, tests the literal of the
source, and runs the statements of the source -/
theorem Vertex_fromG2O_is_source (env : Env A) (params : List (Param A)) (line : Str) :
    Except.map (Option.map LineOut.vertex) (Vertex.fromG2O env line) = runReaders env sourceCtors params G2OPy.Vertex_from_g2o line := by
  simp only [Vertex.fromG2O, G2OPy.Vertex_from_g2o, runReaders, ← tags_tested_are_source.1, ← tags_tested_are_source.2.1,
    ← tags_tested_are_source.2.2.1, ← tags_tested_are_source.2.2.2.1, ← read_VERTEX_XY, ← read_VERTEX_TRACKXYZ, ← read_VERTEX_SE2,
    ← read_VERTEX_SE3_QUAT]
  by_cases h1 : startsWith (withSp T.vertexXY) line <;> simp only [h1, ↓reduceIte, Bool.false_eq_true, someE_map]
  by_cases h2 : startsWith (withSp T.vertexTrackXYZ) line <;> simp only [h2, ↓reduceIte, Bool.false_eq_true, someE_map]
  by_cases h3 : startsWith (withSp T.vertexSE2) line <;> simp only [h3, ↓reduceIte, Bool.false_eq_true, someE_map]
  by_cases h4 : startsWith (withSp T.vertexSE3) line <;> simp only [h4, ↓reduceIte, Bool.false_eq_true, someE_map]
  rfl

/-- `EdgeOdometry.from_g2o` (edge_odometry.py:127-162) -/
theorem EdgeOdometry_fromG2O_is_source (env : Env A) (params : List (Param A)) (line : Str) :
    Except.map (Option.map LineOut.edge) (EdgeOdometry.fromG2O env line) = runReaders env sourceCtors params G2OPy.EdgeOdometry_from_g2o line := by
  simp only [EdgeOdometry.fromG2O, G2OPy.EdgeOdometry_from_g2o, runReaders, ← tags_tested_are_source.2.2.2.2.1,
    ← tags_tested_are_source.2.2.2.2.2.1, ← read_EDGE_SE2, ← read_EDGE_SE3_QUAT]
  by_cases h1 : startsWith (withSp T.edgeSE2) line <;> simp only [h1, ↓reduceIte, Bool.false_eq_true, someE_map]
  by_cases h2 : startsWith (withSp T.edgeSE3) line <;> simp only [h2, ↓reduceIte, Bool.false_eq_true, someE_map]
  rfl

/-- `EdgeLandmark.from_g2o` (edge_landmark.py:161-199) -/
theorem EdgeLandmark_fromG2O_is_source (env : Env A) (params : List (Param A)) (line : Str) :
    Except.map (Option.map LineOut.edge) (EdgeLandmark.fromG2O env params line) = runReaders env sourceCtors params G2OPy.EdgeLandmark_from_g2o line := by
  simp only [EdgeLandmark.fromG2O, G2OPy.EdgeLandmark_from_g2o, runReaders, ← tags_tested_are_source.2.2.2.2.2.2.1,
    ← tags_tested_are_source.2.2.2.2.2.2.2.1, ← read_EDGE_SE2_XY, ← read_EDGE_SE3_TRACKXYZ]
  by_cases h1 : startsWith (withSp T.edgeSE2XY) line <;> simp only [h1, ↓reduceIte, Bool.false_eq_true, someE_map]
  by_cases h2 : startsWith (withSp T.edgeSE3TrackXYZ) line <;> simp only [h2, ↓reduceIte, Bool.false_eq_true, someE_map]
  rfl

/-- `param_from_g2o(line, param_types)` (graph.py:581-602) over `param_types` of the source, each class's `from_g2o` being
`if not line.startswith(...): return None` followed by the statements of the source -/
theorem Param_fromG2O_is_source (env : Env A) (line : Str) :
    Except.map (Option.map LineOut.param) (Param.fromG2O env line) = paramFromG2OBy readerSource env line G2OPy.Graph_from_g2o_param_types := by
  simp only [Param.fromG2O, G2OPy.Graph_from_g2o_param_types, paramFromG2OBy, readerSource, runReaders,
    ← tags_tested_are_source.2.2.2.2.2.2.2.2.1, ← tags_tested_are_source.2.2.2.2.2.2.2.2.2, ← read_PARAMS_SE2OFFSET, ← read_PARAMS_SE3OFFSET]
  by_cases h1 : startsWith (withSp T.paramsSE2Offset) line <;> simp only [h1, ↓reduceIte, Bool.false_eq_true, someE_map]
  · cases Param.from_paramsSE2Offset env line <;> rfl
  by_cases h2 : startsWith (withSp T.paramsSE3Offset) line <;> simp only [h2, ↓reduceIte, Bool.false_eq_true, someE_map]
  · cases Param.from_paramsSE3Offset env line <;> rfl
  rfl

/-- **The loop body of `Graph.from_g2o`** (graph.py:631-662): the model's `parseLine` tries vertex, custom edge types,
odometry, landmark, parameters in exactly the order of the source, each through the statements of the source; a line that no
attempt claims is reported as unsupported -/
theorem parseLine_is_source (env : Env A) (customs : List (CustomType A)) (params : List (Param A)) (line : Str) :
    parseLine env customs params line = parseLineBy readerSource env customs params line G2OPy.Graph_from_g2o_attempts := by
  have hv := Vertex_fromG2O_is_source env [] line
  have ho := EdgeOdometry_fromG2O_is_source env params line
  have hl := EdgeLandmark_fromG2O_is_source env params line
  have hp := Param_fromG2O_is_source env line
  simp only [G2OPy.Graph_from_g2o_attempts, parseLineBy, attemptBy, parseLine]
  simp only [readerSource] at hp ⊢
  rw [← hv, ← ho, ← hl, ← hp]
  rcases Vertex.fromG2O env line with e | _ | v <;> try rfl
  simp only [Except.map, Option.map]
  rcases customFromG2O customs line params with e | _ | c <;> try rfl
  simp only []
  rcases EdgeOdometry.fromG2O env line with e | _ | c <;> try rfl
  simp only []
  rcases EdgeLandmark.fromG2O env params line with e | _ | c <;> try rfl
  simp only []
  rcases Param.fromG2O env line with e | _ | c <;> rfl

theorem parseLines_is_source (env : Env A) (customs : List (CustomType A)) (st : PState A) (lines : List Str) :
    parseLines env customs st lines = parseLinesBy readerSource env customs st lines := by
  induction lines generalizing st with
  | nil => rfl
  | cons l ls ih =>
    unfold parseLines parseLinesBy
    rw [parseLine_is_source]
    by_cases hb : isBlank l
    · simp only [hb, ↓reduceIte, ih]
    · have ha : (readerSource).attempts = G2OPy.Graph_from_g2o_attempts := rfl
      simp only [hb, Bool.false_eq_true, ↓reduceIte, ha]
      generalize parseLineBy readerSource env customs st.params l _ = r
      cases r with
      | error e => rfl
      | ok out => exact ih _

/-- **`Graph.from_g2o`** (graph.py:554-666) on the decoded file content: `readlines`, blank lines skipped, every other line through
the attempts of the source in the order of the source, then `Graph(edges, vertices)` -/
theorem Graph_fromG2O_is_source (env : Env A) (customs : List (CustomType A)) (text : Str) :
    Graph.fromG2O env customs text = fromG2OBy readerSource env customs text := by
  unfold Graph.fromG2O fromLines fromG2OBy
  rw [parseLines_is_source]
  rfl

/-- the deprecation messages of the five `load.py` wrappers -/
theorem Loader_msg_is_source :
    Loader.msg .g2o = G2OPy.load_g2o_message.toList ∧ Loader.msg .r2 = G2OPy.load_g2o_r2_message.toList ∧
    Loader.msg .r3 = G2OPy.load_g2o_r3_message.toList ∧ Loader.msg .se2 = G2OPy.load_g2o_se2_message.toList ∧
    Loader.msg .se3 = G2OPy.load_g2o_se3_message.toList := by
  decide

/-- the five `load.py` wrappers: the message of the source, then `Graph.from_g2o` -/
theorem Loader_run_is_source (env : Env A) (text : Str) :
    Loader.run env text .g2o = withDeprecation G2OPy.load_g2o_message.toList (fromG2OBy readerSource env [] text) ∧
    Loader.run env text .r2 = withDeprecation G2OPy.load_g2o_r2_message.toList (fromG2OBy readerSource env [] text) ∧
    Loader.run env text .r3 = withDeprecation G2OPy.load_g2o_r3_message.toList (fromG2OBy readerSource env [] text) ∧
    Loader.run env text .se2 = withDeprecation G2OPy.load_g2o_se2_message.toList (fromG2OBy readerSource env [] text) ∧
    Loader.run env text .se3 = withDeprecation G2OPy.load_g2o_se3_message.toList (fromG2OBy readerSource env [] text) := by
  simp only [Loader.run, load_g2o, load_g2o_r2, load_g2o_r3, load_g2o_se2, load_g2o_se3, Graph_fromG2O_is_source,
    Loader_msg_is_source.1, Loader_msg_is_source.2.1, Loader_msg_is_source.2.2.1, Loader_msg_is_source.2.2.2.1, Loader_msg_is_source.2.2.2.2,
    and_self]

/-- the warning for an unsupported line is the format of the source applied to `line.rstrip()` (graph.py:662) -/
theorem unsupportedMsg_is_source (line : Str) :
    pyPercent G2OPy.Graph_from_g2o_warning.toList [rstrip line] = .ok (unsupportedMsg line) := by
  simp [G2OPy.Graph_from_g2o_warning, pyPercent, unsupportedMsg]

/-! ### `np.triu_indices` / `np.tril_indices` and `upper_triangular_matrix_to_full_matrix` -/

theorem filter_ge_range (n i : Nat) : (List.range n).filter (fun j => decide (i ≤ j)) = List.range' i (n - i) := by
  induction n with
  | zero => simp
  | succ n ih =>
    rw [List.range_succ, List.filter_append, ih]
    by_cases h : i ≤ n
    · have : n + 1 - i = (n - i) + 1 := by omega
      rw [this, List.range'_concat]
      simp [h]
    · have h1 : n - i = 0 := by omega
      have h2 : n + 1 - i = 0 := by omega
      simp [h, h1, h2]

/-- the model's `triuPairs n` is `np.triu_indices(n, 0)` for every `n` -/
theorem npTriu_zero (n : Nat) : npTriu n 0 = triuPairs n := by
  unfold npTriu triuPairs
  congr 1
  funext i
  rw [← filter_ge_range]
  congr 2
  funext j
  simp

/-- the positions the model writes / fills are `np.triu_indices(n, k)` with the `k` of util.py:66, for every `n` -/
theorem triuPairs_is_source (n : Nat) : triuPairs n = npTriu n G2OPy.util_triu_k := (npTriu_zero n).symm

theorem mem_npTril (n : Nat) (k : Int) (i j : Nat) : (i, j) ∈ npTril n k ↔ i < n ∧ j < n ∧ (j : Int) ≤ (i : Int) + k := by
  unfold npTril
  simp only [List.mem_flatMap, List.mem_range, List.mem_map, List.mem_filter, decide_eq_true_eq, Prod.mk.injEq]
  constructor
  · rintro ⟨a, ha, b, ⟨hb1, hb2⟩, rfl, rfl⟩
    exact ⟨ha, hb1, hb2⟩
  · rintro ⟨h1, h2, h3⟩
    exact ⟨i, h1, j, ⟨h2, h3⟩, rfl, rfl⟩

/-- **`upper_triangular_matrix_to_full_matrix`** (util.py:50-73): the model's `expandTriu` is the five statements of the source
with the source's diagonal offsets (`np.triu_indices(n, 0)`, `np.tril_indices(n, -1)`), for every `n` and every array -/
theorem expandTriu_is_source (zero : A) (n : Nat) (arr : List A) :
    expandTriu zero n arr = expandBy G2OPy.util_triu_k G2OPy.util_tril_k zero n arr := by
  have hfill : ∀ vals : List A, fullOfTriu zero n vals =
      (List.range n).map fun i => (List.range n).map fun j =>
        if (npTril n G2OPy.util_tril_k).contains (i, j) then assignAt zero (npTriu n G2OPy.util_triu_k) vals j i
        else assignAt zero (npTriu n G2OPy.util_triu_k) vals i j := by
    intro vals
    unfold fullOfTriu
    apply List.map_congr_left
    intro i hi
    apply List.map_congr_left
    intro j hj
    have hi' : i < n := by simpa using hi
    have hj' : j < n := by simpa using hj
    have hm : (npTril n G2OPy.util_tril_k).contains (i, j) = decide (j < i) := by
      rw [Bool.eq_iff_iff]
      simp only [List.contains_iff_mem, mem_npTril, decide_eq_true_eq, G2OPy.util_tril_k]
      omega
    simp only [fullAt, upperAt, assignAt, hm, decide_eq_true_eq, ← triuPairs_is_source]
  unfold expandTriu expandBy
  simp only [hfill, ← triuPairs_is_source]
  rfl

theorem fmtInfoBy_zero (env : Env A) (M : Mat A) (n : Nat) : fmtInfoBy env M n 0 = fmtInfo env M n := by
  unfold fmtInfoBy fmtInfo triuOf
  rw [npTriu_zero]
  rfl

/-! ### writers -/

theorem pyJoin_sp (ts : List Str) : pyJoin [' '] ts = joinSp ts := by
  induction ts with
  | nil => rfl
  | cons t ts ih =>
    cases ts with
    | nil => rfl
    | cons u us => simp [pyJoin, joinSp, ih]

/-- **`Vertex.to_g2o`** (vertex.py:73-103): for every vertex the model's printer is the source's branch list — the
`isinstance` tests in the order of the source, the format string of the source, its arguments in the order of the source
(`self.id`, `self.pose[0]`, ...), `NotImplementedError` when no test holds -/
theorem Vertex_toG2O_is_source (env : Env A) (v : Vertex A) :
    Vertex.toG2O env v = writeVertexBy env G2OPy.Vertex_to_g2o v := by
  obtain ⟨i, ⟨k, xs⟩⟩ := v
  cases k
  · rcases xs with _ | ⟨a0, _ | ⟨a1, rest⟩⟩ <;>
      simp [Vertex.toG2O, writeVertexBy, G2OPy.Vertex_to_g2o, G2OPy.VERTEX_XY.writer, G2OPy.VERTEX_TRACKXYZ.writer, G2OPy.VERTEX_SE2.writer,
        G2OPy.VERTEX_SE3_QUAT.writer, kindOf, fmtEntries, mapE, evalVField, getIdx, List.range, List.range.loop, pyFormat, fmtLine, joinSp, T.vertexXY]
  · rcases xs with _ | ⟨a0, _ | ⟨a1, _ | ⟨a2, rest⟩⟩⟩ <;>
      simp [Vertex.toG2O, writeVertexBy, G2OPy.Vertex_to_g2o, G2OPy.VERTEX_XY.writer, G2OPy.VERTEX_TRACKXYZ.writer, G2OPy.VERTEX_SE2.writer,
        G2OPy.VERTEX_SE3_QUAT.writer, kindOf, fmtEntries, mapE, evalVField, getIdx, List.range, List.range.loop, pyFormat, fmtLine, joinSp, T.vertexTrackXYZ]
  · rcases xs with _ | ⟨a0, _ | ⟨a1, _ | ⟨a2, rest⟩⟩⟩ <;>
      simp [Vertex.toG2O, writeVertexBy, G2OPy.Vertex_to_g2o, G2OPy.VERTEX_XY.writer, G2OPy.VERTEX_TRACKXYZ.writer, G2OPy.VERTEX_SE2.writer,
        G2OPy.VERTEX_SE3_QUAT.writer, kindOf, fmtEntries, mapE, evalVField, getIdx, List.range, List.range.loop, pyFormat, fmtLine, joinSp, T.vertexSE2]
  · rcases xs with _ | ⟨a0, _ | ⟨a1, _ | ⟨a2, _ | ⟨a3, _ | ⟨a4, _ | ⟨a5, _ | ⟨a6, rest⟩⟩⟩⟩⟩⟩⟩ <;>
      simp [Vertex.toG2O, writeVertexBy, G2OPy.Vertex_to_g2o, G2OPy.VERTEX_XY.writer, G2OPy.VERTEX_TRACKXYZ.writer, G2OPy.VERTEX_SE2.writer,
        G2OPy.VERTEX_SE3_QUAT.writer, kindOf, fmtEntries, mapE, evalVField, getIdx, List.range, List.range.loop, pyFormat, fmtLine, joinSp, T.vertexSE3]
  · simp [Vertex.toG2O, writeVertexBy, G2OPy.Vertex_to_g2o, G2OPy.VERTEX_XY.writer, G2OPy.VERTEX_TRACKXYZ.writer, G2OPy.VERTEX_SE2.writer,
        G2OPy.VERTEX_SE3_QUAT.writer, kindOf]

/-- **`G2OParameterSE2Offset.to_g2o` / `G2OParameterSE3Offset.to_g2o`** (g2o_parameters.py:87, 133-142): format string and argument
order (`self.key[1]`, `self.value[0]`, ...) of the source -/
theorem Param_toG2O_is_source (env : Env A) (p : Param A) :
    Param.toG2O env p = paramToG2OBy writerSource env p := by
  obtain ⟨k, i, ⟨pk, xs⟩⟩ := p
  cases k
  · rcases xs with _ | ⟨a0, _ | ⟨a1, _ | ⟨a2, rest⟩⟩⟩ <;>
      simp [Param.toG2O, paramToG2OBy, writerSource, writeParamBy, G2OPy.PARAMS_SE2OFFSET.writer, fmtEntries, mapE, evalPField, getIdx,
        List.range, List.range.loop, pyFormat, fmtLine, joinSp, T.paramsSE2Offset]
  · rcases xs with _ | ⟨a0, _ | ⟨a1, _ | ⟨a2, _ | ⟨a3, _ | ⟨a4, _ | ⟨a5, _ | ⟨a6, rest⟩⟩⟩⟩⟩⟩⟩ <;>
      simp [Param.toG2O, paramToG2OBy, writerSource, writeParamBy, G2OPy.PARAMS_SE3OFFSET.writer, fmtEntries, mapE, evalPField, getIdx,
        List.range, List.range.loop, pyFormat, fmtLine, joinSp, T.paramsSE3Offset]

set_option maxHeartbeats 400000 in
/-- **`EdgeOdometry.to_g2o`** (edge_odometry.py:108-125): branch order, `isinstance(self.vertices[0].pose, ...)` tests, format
strings, argument order (`vertex_ids[0]`, `vertex_ids[1]`, `estimate[0]`, ...), `np.triu_indices(n, 0)` with the `n` of the source,
`" ".join`, the final `"\n"` -/
theorem Edge_toG2O_odometry_is_source (env : Env A) (k0 : PoseKind) (k1 : Except PyErr PoseKind) (ids : List Int) (info : Mat A) (est : Pose A) :
    Edge.toG2O env k0 k1 ⟨ids, info, .odometry est⟩ = edgeToG2OBy writerSource env k0 k1 ⟨ids, info, .odometry est⟩ := by
  obtain ⟨ek, xs⟩ := est
  cases k0
  · simp [Edge.toG2O, edgeToG2OBy, writerSource, writeEdgeBy, G2OPy.EdgeOdometry_to_g2o, G2OPy.EDGE_SE2.writer, G2OPy.EDGE_SE3_QUAT.writer, evalGuard, kindAt, kindOf]
  · simp [Edge.toG2O, edgeToG2OBy, writerSource, writeEdgeBy, G2OPy.EdgeOdometry_to_g2o, G2OPy.EDGE_SE2.writer, G2OPy.EDGE_SE3_QUAT.writer, evalGuard, kindAt, kindOf]
  · simp only [Edge.toG2O, edgeToG2OBy, writerSource, writeEdgeBy, G2OPy.EdgeOdometry_to_g2o, G2OPy.EDGE_SE2.writer, evalGuard, kindAt, kindOf,
      fmtInfoBy_zero, ↓reduceIte, Bool.false_and]
    rcases ids with _ | ⟨i0, _ | ⟨i1, irest⟩⟩ <;>
    rcases xs with _ | ⟨a0, _ | ⟨a1, _ | ⟨a2, rest⟩⟩⟩ <;>
    rcases fmtInfo env info 3 with e | ms <;>
    simp [fmtIds, fmtEntries, mapE, evalEField, getIdx, List.range, List.range.loop, pyFormat, fmtEdgeLine, joinSp, pyJoin_sp, T.edgeSE2]
  · simp only [Edge.toG2O, edgeToG2OBy, writerSource, writeEdgeBy, G2OPy.EdgeOdometry_to_g2o, G2OPy.EDGE_SE2.writer, G2OPy.EDGE_SE3_QUAT.writer,
      evalGuard, kindAt, kindOf, fmtInfoBy_zero, ↓reduceIte, Bool.false_and, reduceCtorEq]
    rcases ids with _ | ⟨i0, _ | ⟨i1, irest⟩⟩ <;>
    rcases xs with _ | ⟨a0, _ | ⟨a1, _ | ⟨a2, _ | ⟨a3, _ | ⟨a4, _ | ⟨a5, _ | ⟨a6, rest⟩⟩⟩⟩⟩⟩⟩ <;>
    rcases fmtInfo env info 6 with e | ms <;>
    simp [fmtIds, fmtEntries, mapE, evalEField, getIdx, List.range, List.range.loop, pyFormat, fmtEdgeLine, joinSp, pyJoin_sp, T.edgeSE3]
  · simp [Edge.toG2O, edgeToG2OBy, writerSource, writeEdgeBy, G2OPy.EdgeOdometry_to_g2o, G2OPy.EDGE_SE2.writer, G2OPy.EDGE_SE3_QUAT.writer, evalGuard, kindAt, kindOf]

set_option maxHeartbeats 400000 in
/-- **`EdgeLandmark.to_g2o`** (edge_landmark.py:138-159): branch order, the two-conjunct `isinstance` tests (second vertex evaluated
only when the first test holds), the identity-offset refusal of the SE(2) branch, format strings, argument order (in particular
`offset_id` between the vertex ids and the estimate for `EDGE_SE3_TRACKXYZ`), `np.triu_indices(n, 0)` with the `n` of the source -/
theorem Edge_toG2O_landmark_is_source (env : Env A) (k0 : PoseKind) (k1 : Except PyErr PoseKind) (ids : List Int) (info : Mat A)
    (est off : Pose A) (oid : Option Int) :
    Edge.toG2O env k0 k1 ⟨ids, info, .landmark est off oid⟩ = edgeToG2OBy writerSource env k0 k1 ⟨ids, info, .landmark est off oid⟩ := by
  obtain ⟨ek, xs⟩ := est
  have hother : ∀ k0' : PoseKind, k0' ≠ .se2 → k0' ≠ .se3 →
      Edge.toG2O env k0' k1 ⟨ids, info, .landmark ⟨ek, xs⟩ off oid⟩ = edgeToG2OBy writerSource env k0' k1 ⟨ids, info, .landmark ⟨ek, xs⟩ off oid⟩ := by
    intro k0' h2 h3
    cases k0' <;> first | exact absurd rfl h2 | exact absurd rfl h3 |
      simp [Edge.toG2O, edgeToG2OBy, writerSource, writeEdgeBy, G2OPy.EdgeLandmark_to_g2o, G2OPy.EDGE_SE2_XY.writer, G2OPy.EDGE_SE3_TRACKXYZ.writer, evalGuard, kindAt, kindOf]
  cases k0
  · exact hother _ (by decide) (by decide)
  · exact hother _ (by decide) (by decide)
  · -- SE(2) pose: EDGE_SE2_XY when the second vertex is a point and the offset is the identity
    rcases k1 with x | k
    · simp [Edge.toG2O, edgeToG2OBy, writerSource, writeEdgeBy, G2OPy.EdgeLandmark_to_g2o, G2OPy.EDGE_SE2_XY.writer, G2OPy.EDGE_SE3_TRACKXYZ.writer, evalGuard, kindAt, kindOf]
    · cases k
      · simp only [Edge.toG2O, edgeToG2OBy, writerSource, writeEdgeBy, G2OPy.EdgeLandmark_to_g2o, G2OPy.EDGE_SE2_XY.writer, evalGuard, kindAt, kindOf,
          fmtInfoBy_zero, ↓reduceIte, Bool.true_and, Option.map]
        by_cases hid : numEqList env off.xs (identitySE2 env) = true
        · simp only [hid, ↓reduceIte, Bool.not_true, Bool.false_eq_true]
          rcases ids with _ | ⟨i0, _ | ⟨i1, irest⟩⟩ <;>
          rcases xs with _ | ⟨a0, _ | ⟨a1, rest⟩⟩ <;>
          rcases fmtInfo env info 2 with e | ms <;>
          simp [fmtIds, fmtEntries, mapE, evalEField, getIdx, List.range, List.range.loop, pyFormat, fmtEdgeLine, joinSp, pyJoin_sp, T.edgeSE2XY]
        · simp [hid]
      all_goals
        simp [Edge.toG2O, edgeToG2OBy, writerSource, writeEdgeBy, G2OPy.EdgeLandmark_to_g2o, G2OPy.EDGE_SE2_XY.writer, G2OPy.EDGE_SE3_TRACKXYZ.writer, evalGuard, kindAt, kindOf]
  · rcases k1 with x | k
    · simp [Edge.toG2O, edgeToG2OBy, writerSource, writeEdgeBy, G2OPy.EdgeLandmark_to_g2o, G2OPy.EDGE_SE2_XY.writer, G2OPy.EDGE_SE3_TRACKXYZ.writer, evalGuard, kindAt, kindOf]
    · cases k
      case r3 =>
        simp only [Edge.toG2O, edgeToG2OBy, writerSource, writeEdgeBy, G2OPy.EdgeLandmark_to_g2o, G2OPy.EDGE_SE2_XY.writer, G2OPy.EDGE_SE3_TRACKXYZ.writer, evalGuard, kindAt, kindOf,
          fmtInfoBy_zero, ↓reduceIte, Bool.false_and, Option.map, reduceCtorEq, Bool.false_eq_true]
        rcases ids with _ | ⟨i0, _ | ⟨i1, irest⟩⟩ <;>
        rcases xs with _ | ⟨a0, _ | ⟨a1, _ | ⟨a2, rest⟩⟩⟩ <;>
        rcases fmtInfo env info 3 with e | ms <;>
        simp [fmtIds, fmtEntries, mapE, evalEField, getIdx, List.range, List.range.loop, pyFormat, fmtEdgeLine, joinSp, pyJoin_sp, T.edgeSE3TrackXYZ]
      all_goals
        simp [Edge.toG2O, edgeToG2OBy, writerSource, writeEdgeBy, G2OPy.EdgeLandmark_to_g2o, G2OPy.EDGE_SE2_XY.writer, G2OPy.EDGE_SE3_TRACKXYZ.writer, evalGuard, kindAt, kindOf]
  · exact hother _ (by decide) (by decide)

/-- every edge object: `e.to_g2o()` of the model is the source's method of the object's class (a custom edge's output is data) -/
theorem Edge_toG2O_is_source (env : Env A) (k0 : PoseKind) (k1 : Except PyErr PoseKind) (e : Edge A) :
    Edge.toG2O env k0 k1 e = edgeToG2OBy writerSource env k0 k1 e := by
  obtain ⟨ids, info, body⟩ := e
  cases body with
  | odometry est => exact Edge_toG2O_odometry_is_source env k0 k1 ids info est
  | landmark est off oid => exact Edge_toG2O_landmark_is_source env k0 k1 ids info est off oid
  | custom c est out => rfl

/-- `s = e.to_g2o(); if s: f.write(s)` (graph.py:549-552) -/
theorem Edge_write_is_source (env : Env A) (vs : List (Vertex A)) (e : Edge A) :
    Edge.write env vs e = edgeWriteBy writerSource env vs e := by
  unfold Edge.write edgeWriteBy
  simp only [Edge_toG2O_is_source]
  rfl

/-- the pre-check of `Graph.to_g2o` (graph.py:535-539) looks the offset up under the tag of the source -/
theorem Edge_preCheck_is_source (env : Env A) (params : List (Param A)) (e : Edge A) :
    Edge.preCheck env params e = preCheckBy writerSource env params e := by
  obtain ⟨ids, info, body⟩ := e
  cases body with
  | odometry est => rfl
  | custom c est out => rfl
  | landmark est off oid =>
    simp only [Edge.preCheck, preCheckBy, writerSource, param_key_tags_are_source.1]
    cases oid <;> rfl

/-- **`Graph.to_g2o`** (graph.py:525-552): the pre-check, then the write loops **in the order of the source** (parameters,
vertices, edges), one `to_g2o()` per object, every `to_g2o` being the source's (theorems above); the result is the text written
and the exception that interrupted the writing, or `none` when the pre-check refused -/
theorem Graph_toG2OTrace_is_source (env : Env A) (g : Graph A) :
    Graph.toG2OTrace env g = writeGraphBy writerSource env g := by
  have h1 : Edge.preCheck env g.params = preCheckBy writerSource env g.params := funext (Edge_preCheck_is_source env g.params)
  have h2 : Param.toG2O env = paramToG2OBy writerSource env := funext (Param_toG2O_is_source env)
  have h3 : Vertex.toG2O env = writeVertexBy env writerSource.vertex := funext (Vertex_toG2O_is_source env)
  have h4 : Edge.write env g.vertices = edgeWriteBy writerSource env g.vertices := funext (Edge_write_is_source env g.vertices)
  unfold Graph.toG2OTrace writeGraphBy
  rw [h1, h2, h3, h4]
  simp [writerSource, G2OPy.Graph_to_g2o_sections, sectionWrites]

/-- `Graph.to_g2o` as a function from the graph to the file content or the exception -/
theorem Graph_toG2O_is_source (env : Env A) (g : Graph A) :
    Graph.toG2O env g =
      match writeGraphBy writerSource env g with
      | none => .error .valueError
      | some (s, none) => .ok s
      | some (_, some e) => .error e := by
  unfold Graph.toG2O
  rw [Graph_toG2OTrace_is_source]
  rfl

end GraphSlam.Props.Tie.G2O
