import GraphSlam.Props.Tie.G2OPy
import GraphSlam.Props.C13.Example

/-!
# Concrete instances for the `.g2o` source tie (non-vacuity and sensitivity)

The theorems of `Props/Tie/G2OPy.lean` are equations between the hand-written model and the interpretation of the regenerated
data.  Here both sides are evaluated in the small concrete environment `C13.Ex.env` (unary numerals, `wrap n = n % 4`,
`normQ` = entries mod 2):

* the interpretation of the regenerated data produces real objects and real text (it is not constantly an exception);
* the interpretation is *sensitive* to exactly the things the tie is meant to pin down: changing one descriptor of the
  regenerated data (two written fields swapped, the information read one token early, `normalize()` dropped, a tag changed,
  sections reordered) changes the result on a concrete input, i.e. the tie equation with the changed data is **false**, so its
  proof cannot go through.

All by kernel evaluation (`decide +kernel`).
-/

namespace GraphSlam.Props.Tie.G2O
open GraphSlam.Model.G2O GraphSlam.G2OSpec GraphSlam.Gen GraphSlam.Props.C13

/-! ### non-vacuity: the regenerated statements, executed -/

/-- `Vertex.from_g2o("VERTEX_SE2 1 0 1 6\n")`, tokens in unary: id from token 0, pose from tokens 1..3, angle wrapped -/
example : runReader Ex.env sourceCtors [] G2OPy.VERTEX_SE2.reader "VERTEX_SE2 ii a aa aaaaaaa\n".toList
    = .ok (.vertex ⟨1, ⟨.se2, [0, 1, 2]⟩⟩) := by
  simp only [String.reduceToList, G2OPy.VERTEX_SE2.reader]
  decide +kernel

/-- a whole line through the attempts of `Graph.from_g2o`: an `EDGE_SE3_TRACKXYZ` line finds its offset among the parameters -/
example : parseLineBy readerSource Ex.env [] [⟨.se3offset, 2, ⟨.se3, [1, 0, 2, 0, 0, 0, 1]⟩⟩]
      "EDGE_SE3_TRACKXYZ iiiii iiiiii iii a aa aaa aa a a aa a aa\n".toList G2OPy.Graph_from_g2o_attempts
    = .ok (.edge ⟨[4, 5], [[1, 0, 0], [0, 1, 0], [0, 0, 1]], .landmark ⟨.r3, [0, 1, 2]⟩ ⟨.se3, [1, 0, 2, 0, 0, 0, 1]⟩ (some 2)⟩) := by
  simp only [String.reduceToList]
  decide +kernel

/-- an unknown line is reported, not an error -/
example : parseLineBy readerSource Ex.env [] [] "FIX ii\n".toList G2OPy.Graph_from_g2o_attempts = .ok .unsupported := by
  simp only [String.reduceToList]
  decide +kernel

/-- `Graph.to_g2o` of the graph with all ten line kinds (`C13.Ex.g`), through the regenerated writers -/
example : (writeGraphBy writerSource Ex.env Ex.g).map (fun r => (String.ofList r.1, r.2)) = some
    ("PARAMS_SE3OFFSET iii aa a aaa a a a aa\nPARAMS_SE2OFFSET iii aa aa aaaaaaaa\nVERTEX_SE2 i a aa aaaaaaa\nVERTEX_SE2 ii aaa a aa\nVERTEX_XY iii aaaa aaaaa\nVERTEX_SE3:QUAT iiii a a a a a a aa\nVERTEX_SE3:QUAT iiiii aa aaa aaaa a aaaa a aaa\nVERTEX_TRACKXYZ iiiiii aa aa aa\nEDGE_SE2 i ii aaa a aaaaaa aaa aa a aaa a aaaa\nEDGE_SE3:QUAT iiii iiiii aa aaa aaaa a aaaa a aaa aaa a a a a a aaa a a a a aaa a a a aaa a a aaa a aaa\nEDGE_SE2_XY ii iii aa aaa aa aaa aaaaaa\nEDGE_SE3_TRACKXYZ iiiii iiiiii iii a aa aaa aa a a aa a aa\n",
     none) := by
  decide +kernel

/-! ### sensitivity: the tie equations are false for changed data -/

/-- two written fields swapped (`self.pose[1]` before `self.pose[0]`) -/
example : writeVertexBy Ex.env [{ G2OPy.VERTEX_SE2.writer with args := [.id, .pose 1, .pose 0, .pose 2] }] ⟨1, ⟨.se2, [0, 1, 2]⟩⟩
    ≠ Vertex.toG2O Ex.env ⟨1, ⟨.se2, [0, 1, 2]⟩⟩ := by
  decide +kernel

/-- a changed tag in the format string -/
example : writeVertexBy Ex.env [{ G2OPy.VERTEX_XY.writer with fmt := "VERTEX_R2 {} {} {}\n" }] ⟨1, ⟨.r2, [0, 1]⟩⟩
    ≠ Vertex.toG2O Ex.env ⟨1, ⟨.r2, [0, 1]⟩⟩ := by
  decide +kernel

/-- a missing space in the format string -/
example : writeVertexBy Ex.env [{ G2OPy.VERTEX_XY.writer with fmt := "VERTEX_XY {} {}{}\n" }] ⟨1, ⟨.r2, [0, 1]⟩⟩
    ≠ Vertex.toG2O Ex.env ⟨1, ⟨.r2, [0, 1]⟩⟩ := by
  decide +kernel

/-- the information matrix read one token early (`arr[2:]` instead of `arr[3:]`) -/
example : runReader Ex.env sourceCtors [] { G2OPy.EDGE_SE2.reader with
        steps := [.floats 2, .vertexIds [0, 1], .pose .PoseSE2 [.slice 0 (some 2), .index 2], .information 2 3] }
      "EDGE_SE2 i ii aaa a aaaaaa aaa aa a aaa a aaaa\n".toList
    ≠ Except.map LineOut.edge (EdgeOdometry.from_edgeSE2 Ex.env "EDGE_SE2 i ii aaa a aaaaaa aaa aa a aaa a aaaa\n".toList) := by
  simp only [String.reduceToList]
  decide +kernel

/-- `normalize()` dropped from the `EDGE_SE3:QUAT` branch -/
example : runReader Ex.env sourceCtors [] { G2OPy.EDGE_SE3_QUAT.reader with
        steps := [.floats 2, .vertexIds [0, 1], .pose .PoseSE3 [.slice 0 (some 3), .slice 3 (some 7)], .information 7 6] }
      "EDGE_SE3:QUAT iiii iiiii aa aaa aaaa a aaaa a aaa aaa a a a a a aaa a a a a aaa a a a aaa a a aaa a aaa\n".toList
    ≠ Except.map LineOut.edge (EdgeOdometry.from_edgeSE3 Ex.env
        "EDGE_SE3:QUAT iiii iiiii aa aaa aaaa a aaaa a aaa aaa a a a a a aaa a a a a aaa a a a aaa a a aaa a aaa\n".toList) := by
  simp only [String.reduceToList]
  decide +kernel

/-- vertex ids read in the other order -/
example : runReader Ex.env sourceCtors [] { G2OPy.EDGE_SE2_XY.reader with
        steps := [.floats 2, .vertexIds [1, 0], .pose .PoseR2 [.slice 0 (some 2)], .information 2 2, .offsetIdentity .PoseSE2 0] }
      "EDGE_SE2_XY ii iii aa aaa aa aaa aaaaaa\n".toList
    ≠ Except.map LineOut.edge (EdgeLandmark.from_edgeSE2XY Ex.env [] "EDGE_SE2_XY ii iii aa aaa aa aaa aaaaaa\n".toList) := by
  simp only [String.reduceToList]
  decide +kernel

/-- the id converted before the pose is built changes which exception a doubly malformed line raises
(`VERTEX_SE2 x a`: bad id *and* too few numbers — the source raises `IndexError`, the reordered branch `ValueError`) -/
example : runReader Ex.env sourceCtors [] { G2OPy.VERTEX_SE2.reader with
        steps := [.floats 1, .id 0, .pose .PoseSE2 [.slice 0 (some 2), .index 2]] } "VERTEX_SE2 x a\n".toList
    ≠ Except.map LineOut.vertex (Vertex.from_vertexSE2 Ex.env "VERTEX_SE2 x a\n".toList) := by
  simp only [String.reduceToList]
  decide +kernel

/-- vertices written before the parameters -/
example : writeGraphBy { writerSource with sections := [.vertices, .params, .edges] } Ex.env Ex.g ≠ Graph.toG2OTrace Ex.env Ex.g := by
  decide +kernel

/-- the strictly-lower triangle not mirrored (`np.tril_indices(n, -2)`): the expansion differs -/
example : expandBy G2OPy.util_triu_k (-2) (0 : Nat) 3 [1, 2, 3, 4, 5, 6] ≠ expandTriu (0 : Nat) 3 [1, 2, 3, 4, 5, 6] := by
  decide +kernel

end GraphSlam.Props.Tie.G2O
