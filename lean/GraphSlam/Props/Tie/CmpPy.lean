import GraphSlam.Generated.CmpPy

/-!
# Kernel-checked tie between the hand-written models of `equals` / `is_valid` and the guard sequences of the current source

`GraphSlam/Generated/CmpPy.lean` is regenerated on every run by `tools/translate/py2lean_cmp.py` from the AST of
`base_pose.py`, `vertex.py`, `base_edge.py`, `edge_odometry.py`, `edge_landmark.py`, `graph.py`: for each of the methods
`BasePose.equals`, `Vertex.equals`, `BaseEdge.equals`, `EdgeLandmark.equals`, `Graph.equals`, `BaseEdge._is_valid`,
`EdgeOdometry.is_valid`, `EdgeLandmark.is_valid` the sequence of its statements (`if <cond>: return <value>` … `return <value>`)
as a `List (Step F)` over a record `F` of observable facts (`GraphSlam/Model/CmpFacts.lean`), and the quantifier of the `assert`
of `Graph._initialize`.

This file gives, for the descriptors of `Model/Equals.lean` / `Model/Validity.lean`, the value of every fact (the
`…Facts` functions: one line per atomic Python expression) and proves, for all arguments,

    model function  =  run (facts of the arguments) (generated statement sequence).

So the model evaluates exactly the guards of the source, in the order of the source, with the operators, the `self` / `other`
operands, the short-circuit structure and the returned values of the source; where a guard calls another method
(`self.pose.equals`, `self.offset.equals`, `BaseEdge.equals`, `e1.equals(e2, tol)`, `self._is_valid()`, `e.is_valid()`) the fact
is the model function of that method, which is tied by its own theorem.  A change of the source that alters any of this changes
the generated definition and the theorem stops checking (a broken tie).  Mathlib-free.
-/

namespace GraphSlam.Props.Tie.CmpPy
open GraphSlam.Model.Cmp GraphSlam.Model.Equals GraphSlam.Model.Validity GraphSlam.Model.CmpFacts GraphSlam.Gen

/-- evaluate a generated statement sequence on concrete facts: unfolds `run`, the connectives and `pure` / `bind` -/
macro "cmp_eval" : tactic =>
  `(tactic| simp only [run_ifRet, run_ret, pAnd, pOr, branch_ok, branch_error, pNot_ok, pNot_error, pXor_ok, pure_eq_ok,
      bind_ok, bind_error])

/-! ## `equals` -/

section equals
variable {E : Type} [CmpScalar E]

/-- norms of two 1-D arrays whose lengths need not agree (`to_array()` of two poses): the subtraction is numpy's -/
def normFacts1 (xs ys : List E) : NormFacts E where
  selfMinusOther := (npSub1 xs ys).map vnorm
  otherMinusSelf := (npSub1 ys xs).map vnorm
  self := vnorm xs
  other := vnorm ys

/-- the facts `BasePose.equals` reads -/
def poseFacts (tol : E) (a b : Pose E) : PoseEqFacts E where
  tol := tol
  sameType := decide (a.kind = b.kind)
  arr := normFacts1 a.comps b.comps

/-- **`BasePose.equals`** (base_pose.py:75-78): the model is the source's statement sequence — the `type(self) is not
    type(other)` guard, then the relative-norm test with the source's operator and the source's scale operand. -/
theorem poseEquals_is_source (tol : E) (a b : Pose E) :
    poseEquals tol a b = run (poseFacts tol a b) CmpPy.BasePose_equals := by
  unfold poseEquals CmpPy.BasePose_equals CmpPy.BasePose_equals_cond_0 CmpPy.BasePose_equals_ret_0
    CmpPy.BasePose_equals_ret_1 poseFacts normFacts1 relDiff
  cmp_eval
  cases npSub1 a.comps b.comps <;> by_cases h : a.kind = b.kind <;> simp [h, Except.map, bind_ok, bind_error]

/-- the facts `Vertex.equals` reads; `self.pose.equals(other.pose, tol)` is the model of `BasePose.equals` -/
def vertexFacts (tol : E) (v w : Vertex E) : VertexEqFacts where
  idSelf := v.id
  idOther := w.id
  poseSameType := decide (v.pose.kind = w.pose.kind)
  poseEquals := poseEquals tol v.pose w.pose

/-- **`Vertex.equals`** (vertex.py:70): `self.id == other.id and (type(self.pose) is type(other.pose)) and
    self.pose.equals(other.pose, tol)` with Python's short-circuit order. -/
theorem vertexEquals_is_source (tol : E) (v w : Vertex E) :
    vertexEquals tol v w = run (vertexFacts tol v w) CmpPy.Vertex_equals := by
  unfold vertexEquals CmpPy.Vertex_equals CmpPy.Vertex_equals_ret_0 vertexFacts
  cmp_eval
  by_cases h1 : v.id = w.id <;> by_cases h2 : v.pose.kind = w.pose.kind <;> simp [h1, h2]

/-- `isinstance(estimate, BasePose)` -/
def Estimate.isPose : Estimate E → Bool
  | .pose _ => true
  | _ => false

/-- `any(v_id1 != v_id2 for v_id1, v_id2 in zip(a, b))` as the source writes it -/
theorem idsDiffer_eq_any (xs ys : List Int) : idsDiffer xs ys = (List.zip xs ys).any (fun p => p.1 != p.2) := by
  induction xs generalizing ys with
  | nil => simp [idsDiffer]
  | cons x xs ih =>
    cases ys with
    | nil => simp [idsDiffer]
    | cons y ys =>
      by_cases h : x = y <;> simp [idsDiffer, h, ih]

/-- the facts `BaseEdge.equals` reads.  `information` arrays of equal shape subtract element-wise; arithmetic on a `None`
    estimate raises `TypeError`; calling `.equals` on an estimate that is not a pose raises `AttributeError` (neither of the
    last two is reached behind the source's guards for well-formed edges). -/
def edgeFacts (tol : E) (a b : Edge E) : EdgeEqFacts E where
  tol := tol
  sameType := decide (a.cls = b.cls)
  idsSelf := a.vertexIds
  idsOther := b.vertexIds
  infoShapeSelf := a.infoShape
  infoShapeOther := b.infoShape
  info :=
    { selfMinusOther := .ok (vnorm (zipSub a.info b.info))
      otherMinusSelf := .ok (vnorm (zipSub b.info a.info))
      self := vnorm a.info
      other := vnorm b.info }
  estSelfIsPose := Estimate.isPose a.estimate
  estOtherIsPose := Estimate.isPose b.estimate
  estPoseEquals :=
    match a.estimate, b.estimate with
    | .pose p, .pose q => poseEquals tol p q
    | _, _ => .error .attributeError
  estShapeSelf := a.estimate.shape
  estShapeOther := b.estimate.shape
  est :=
    { selfMinusOther :=
        match a.estimate.data?, b.estimate.data? with
        | some x, some y => .ok (vnorm (zipSub x y))
        | _, _ => .error .typeError
      otherMinusSelf :=
        match b.estimate.data?, a.estimate.data? with
        | some x, some y => .ok (vnorm (zipSub x y))
        | _, _ => .error .typeError
      self := vnorm (a.estimate.data?.getD [])
      other := vnorm (b.estimate.data?.getD []) }

/-- **`BaseEdge.equals`** (base_edge.py:259-280): the model evaluates the source's seven statements in the source's order —
    class, id count, `any(id1 != id2 …)`, `information` shape `or` relative norm `>= tol`, the pose-estimate branch
    (`isinstance(other.estimate, BasePose) and self.estimate.equals(…)`), other-is-pose `or` shapes differ, relative norm
    `< tol`. -/
theorem baseEdgeEquals_is_source (tol : E) (a b : Edge E) :
    baseEdgeEquals tol a b = run (edgeFacts tol a b) CmpPy.BaseEdge_equals := by
  unfold baseEdgeEquals CmpPy.BaseEdge_equals CmpPy.BaseEdge_equals_cond_0 CmpPy.BaseEdge_equals_ret_0
    CmpPy.BaseEdge_equals_cond_1 CmpPy.BaseEdge_equals_ret_1 CmpPy.BaseEdge_equals_cond_2 CmpPy.BaseEdge_equals_ret_2
    CmpPy.BaseEdge_equals_cond_3 CmpPy.BaseEdge_equals_ret_3 CmpPy.BaseEdge_equals_cond_4 CmpPy.BaseEdge_equals_ret_4
    CmpPy.BaseEdge_equals_cond_5 CmpPy.BaseEdge_equals_ret_5 CmpPy.BaseEdge_equals_ret_6 edgeFacts relDiff
  cmp_eval
  rw [← idsDiffer_eq_any]
  by_cases h0 : a.cls = b.cls
  case neg => simp [h0]
  by_cases h1 : a.vertexIds.length = b.vertexIds.length
  case neg => simp [h0, h1]
  cases h2 : idsDiffer a.vertexIds b.vertexIds
  case true => simp [h0, h1]
  by_cases h3 : a.infoShape = b.infoShape
  case neg => simp [h0, h1, h3, branch_ok]
  cases h4 : CmpScalar.ge (CmpScalar.div (vnorm (zipSub a.info b.info)) (pyMax (vnorm a.info) tol)) tol
  case true => simp [h0, h1, h3, branch_ok]
  simp only [h0, h1, h3, decide_true, Bool.not_true, Bool.false_eq_true, if_false, ne_eq, not_true_eq_false,
    decide_false, Bool.or_self, bne_self_eq_false]
  generalize a.estimate = ea
  generalize b.estimate = eb
  cases ea <;> cases eb <;>
    simp [estimateEquals, plainEstimateEquals, Estimate.isPose, Estimate.shape, Estimate.data?, relDiff, branch_ok,
      bind_ok, bind_error] <;>
    split <;> simp_all

/-- the facts `EdgeLandmark.equals` reads; `None` and a foreign object have no `.equals` (`AttributeError`);
    `BaseEdge.equals(self, other, tol)` is the model of `BaseEdge.equals` -/
def landmarkFacts (tol : E) (a b : Edge E) : LandmarkEqFacts where
  sameType := decide (a.cls = b.cls)
  offsetSameType := a.offset.sameType b.offset
  offsetEquals :=
    match a.offset, b.offset with
    | .pose p, .pose q => poseEquals tol p q
    | _, _ => .error .attributeError
  offsetIdSelf := a.offsetId
  offsetIdOther := b.offsetId
  baseEquals := baseEdgeEquals tol a b

/-- the source's offset-id test, on optional integers -/
theorem offsetIdDiffer_eq (a b : Option Int) :
    offsetIdDiffer a b = ((a.isNone != b.isNone) || (!a.isNone && (a != b))) := by
  cases a with
  | none => cases b <;> simp [offsetIdDiffer]
  | some x =>
    cases b with
    | none => simp [offsetIdDiffer]
    | some y => by_cases h : x = y <;> simp [offsetIdDiffer, h]

/-- **`EdgeLandmark.equals`** (edge_landmark.py:240-254): class, offset class, `self.offset.equals` (whose exception
    propagates), the offset-id `xor … or (… and …)` test, then `BaseEdge.equals`. -/
theorem landmarkEdgeEquals_is_source (tol : E) (a b : Edge E) :
    landmarkEdgeEquals tol a b = run (landmarkFacts tol a b) CmpPy.EdgeLandmark_equals := by
  unfold landmarkEdgeEquals CmpPy.EdgeLandmark_equals CmpPy.EdgeLandmark_equals_cond_0 CmpPy.EdgeLandmark_equals_ret_0
    CmpPy.EdgeLandmark_equals_cond_1 CmpPy.EdgeLandmark_equals_ret_1 CmpPy.EdgeLandmark_equals_cond_2
    CmpPy.EdgeLandmark_equals_ret_2 CmpPy.EdgeLandmark_equals_cond_3 CmpPy.EdgeLandmark_equals_ret_3
    CmpPy.EdgeLandmark_equals_ret_4 landmarkFacts
  cmp_eval
  rw [offsetIdDiffer_eq]
  by_cases h0 : a.cls = b.cls
  case neg => simp [h0]
  cases h1 : a.offset.sameType b.offset
  case false => simp [h0]
  simp only [h0, decide_true, Bool.not_true, ne_eq, not_true_eq_false, if_false, Bool.false_eq_true]
  cases a.offset <;> cases b.offset <;> simp only [pNot_error, branch_error]
  case pose.pose p q =>
    cases poseEquals tol p q with
    | error e => rfl
    | ok r =>
      cases r <;> simp only [pNot_ok, branch_ok, Bool.not_true, Bool.not_false, if_true, if_false, Bool.false_eq_true]
      cases a.offsetId <;> cases b.offsetId <;> simp [branch_ok]

/-- `all(f(x, y) for x, y in zip(xs, ys))` as the source writes it: the quantifier over the list of element results -/
theorem allZip_eq_rAll {α : Type} (f : α → α → Except PyErr Bool) (xs ys : List α) :
    allZip f xs ys = rAll (List.zipWith f xs ys) := by
  induction xs generalizing ys with
  | nil => simp [allZip, rAll]
  | cons x xs ih =>
    cases ys with
    | nil => simp [allZip, rAll]
    | cons y ys =>
      simp only [allZip, List.zipWith_cons_cons, rAll]
      cases f x y with
      | error e => rfl
      | ok r => cases r <;> simp [ih]

/-- the facts `Graph.equals` reads; `e1.equals(e2, tol)` is the model's method resolution (`edgeEquals`: `EdgeLandmark`
    overrides, the other classes inherit `BaseEdge.equals` — the translator checks which classes define `equals`),
    `v1.equals(v2, tol)` the model of `Vertex.equals` -/
def graphFacts (tol : E) (g h : Graph E) : GraphEqFacts where
  numEdgesSelf := g.edges.length
  numEdgesOther := h.edges.length
  numVerticesSelf := g.vertices.length
  numVerticesOther := h.vertices.length
  edgesSelfOther := List.zipWith (edgeEquals tol) g.edges h.edges
  verticesSelfOther := List.zipWith (vertexEquals tol) g.vertices h.vertices

/-- **`Graph.equals`** (graph.py:720-724): the two length tests joined by the source's connective, then
    `all(edges …) and all(vertices …)` in the source's order (edges first; exceptions propagate in that order). -/
theorem graphEquals_is_source (tol : E) (g h : Graph E) :
    graphEquals tol g h = run (graphFacts tol g h) CmpPy.Graph_equals := by
  unfold graphEquals CmpPy.Graph_equals CmpPy.Graph_equals_cond_0 CmpPy.Graph_equals_ret_0 CmpPy.Graph_equals_ret_1
    graphFacts
  cmp_eval
  rw [allZip_eq_rAll, allZip_eq_rAll]
  by_cases h1 : g.edges.length = h.edges.length <;> by_cases h2 : g.vertices.length = h.vertices.length <;>
    simp [h1, h2, branch_ok]
  cases rAll (List.zipWith (edgeEquals tol) g.edges h.edges) with
  | error e => rfl
  | ok r => cases r <;> rfl

/-- `e1.equals(e2, tol)` on the regenerated bodies: a landmark edge runs the source's `EdgeLandmark.equals`, every other
    class the inherited `BaseEdge.equals` -/
def sourceEdgeEquals (tol : E) (a b : Edge E) : Res Bool :=
  match a.cls with
  | .landmark => run (landmarkFacts tol a b) CmpPy.EdgeLandmark_equals
  | _ => run (edgeFacts tol a b) CmpPy.BaseEdge_equals

/-- method resolution of `e1.equals(e2, tol)` with both tied bodies (the translator stops if `EdgeOdometry` starts to
    define `equals` or a pose class overrides `BasePose.equals`) -/
theorem edgeEquals_is_source (tol : E) (a b : Edge E) : edgeEquals tol a b = sourceEdgeEquals tol a b := by
  unfold edgeEquals sourceEdgeEquals
  cases a.cls <;> simp only [landmarkEdgeEquals_is_source, baseEdgeEquals_is_source]

/-! ### the same statements, one level unfolded (the form of `ctlLoop_step_is_source`) -/

/-- `BasePose.equals`: guard, then the final return -/
theorem poseEquals_unfolded (tol : E) (a b : Pose E) :
    poseEquals tol a b =
      branch (CmpPy.BasePose_equals_cond_0 (poseFacts tol a b)) (CmpPy.BasePose_equals_ret_0 (poseFacts tol a b))
        (CmpPy.BasePose_equals_ret_1 (poseFacts tol a b)) := by
  rw [poseEquals_is_source]; rfl

/-- `BaseEdge.equals`: six guards in the order of the source, then the final return -/
theorem baseEdgeEquals_unfolded (tol : E) (a b : Edge E) :
    baseEdgeEquals tol a b =
      (let f := edgeFacts tol a b
       branch (CmpPy.BaseEdge_equals_cond_0 f) (CmpPy.BaseEdge_equals_ret_0 f) <|
       branch (CmpPy.BaseEdge_equals_cond_1 f) (CmpPy.BaseEdge_equals_ret_1 f) <|
       branch (CmpPy.BaseEdge_equals_cond_2 f) (CmpPy.BaseEdge_equals_ret_2 f) <|
       branch (CmpPy.BaseEdge_equals_cond_3 f) (CmpPy.BaseEdge_equals_ret_3 f) <|
       branch (CmpPy.BaseEdge_equals_cond_4 f) (CmpPy.BaseEdge_equals_ret_4 f) <|
       branch (CmpPy.BaseEdge_equals_cond_5 f) (CmpPy.BaseEdge_equals_ret_5 f) <|
       CmpPy.BaseEdge_equals_ret_6 f) := by
  rw [baseEdgeEquals_is_source]; rfl

/-- `EdgeLandmark.equals`: four guards, then `BaseEdge.equals(self, other, tol)` -/
theorem landmarkEdgeEquals_unfolded (tol : E) (a b : Edge E) :
    landmarkEdgeEquals tol a b =
      (let f := landmarkFacts tol a b
       branch (CmpPy.EdgeLandmark_equals_cond_0 f) (CmpPy.EdgeLandmark_equals_ret_0 f) <|
       branch (CmpPy.EdgeLandmark_equals_cond_1 f) (CmpPy.EdgeLandmark_equals_ret_1 f) <|
       branch (CmpPy.EdgeLandmark_equals_cond_2 f) (CmpPy.EdgeLandmark_equals_ret_2 f) <|
       branch (CmpPy.EdgeLandmark_equals_cond_3 f) (CmpPy.EdgeLandmark_equals_ret_3 f) <|
       CmpPy.EdgeLandmark_equals_ret_4 f) := by
  rw [landmarkEdgeEquals_is_source]; rfl

/-- `Graph.equals`: the length guard, then the final return -/
theorem graphEquals_unfolded (tol : E) (g h : Graph E) :
    graphEquals tol g h =
      branch (CmpPy.Graph_equals_cond_0 (graphFacts tol g h)) (CmpPy.Graph_equals_ret_0 (graphFacts tol g h))
        (CmpPy.Graph_equals_ret_1 (graphFacts tol g h)) := by
  rw [graphEquals_is_source]; rfl

end equals

/-! ## validity -/

section validity

/-- `for vertex, v_id in zip(vertices, vertex_ids): if vertex.id != v_id: return False` never fires -/
theorem idsMatch_eq_not_any (vs : List VertexDesc) (xs : List Int) :
    idsMatch vs xs = !(List.zip (vs.map (·.id)) xs).any (fun p => p.1 != p.2) := by
  induction vs generalizing xs with
  | nil => simp [idsMatch]
  | cons v vs ih =>
    cases xs with
    | nil => simp [idsMatch]
    | cons x xs =>
      by_cases h : v.id = x <;> simp [idsMatch, h, ih]

/-- the facts `BaseEdge._is_valid` reads (`vertices = none` is `self.vertices is None`) -/
def baseValidFacts (e : EdgeDesc) (vertices : Option (List VertexDesc)) : BaseValidFacts where
  verticesIsNone := vertices.isNone
  numVertices := (vertices.getD []).length
  numVertexIds := e.vertexIds.length
  boundIds := (vertices.getD []).map (·.id)
  vertexIds := e.vertexIds

/-- **`BaseEdge._is_valid`** (base_edge.py:61-68): `vertices is None or len(vertices) != len(vertex_ids)` → False; the loop
    that returns False at the first `vertex.id != v_id`; `return True`. -/
theorem isValidBase_is_source (e : EdgeDesc) (vertices : Option (List VertexDesc)) :
    .ok (isValidBase e vertices) = run (baseValidFacts e vertices) CmpPy.BaseEdge_is_valid_base := by
  unfold isValidBase CmpPy.BaseEdge_is_valid_base CmpPy.BaseEdge_is_valid_base_cond_0 CmpPy.BaseEdge_is_valid_base_ret_0
    CmpPy.BaseEdge_is_valid_base_cond_1 CmpPy.BaseEdge_is_valid_base_ret_1 CmpPy.BaseEdge_is_valid_base_ret_2
    baseValidFacts
  cmp_eval
  cases vertices with
  | none => simp
  | some vs =>
    simp only [idsMatch_eq_not_any, Option.getD_some, Option.isNone_some]
    rcases Bool.eq_false_or_eq_true ((List.zip (vs.map (·.id)) e.vertexIds).any (fun p => p.1 != p.2)) with hr | hr <;>
      simp only [hr] <;> by_cases h : vs.length = e.vertexIds.length <;> simp [h]

theorem decide_eq_beq {α : Type} [BEq α] [LawfulBEq α] [DecidableEq α] (a b : α) : decide (a = b) = (a == b) := by
  by_cases h : a = b <;> simp [h]

/-- the class of the object an `is_valid` method tests -/
def objKind (e : EdgeDesc) (vs : List VertexDesc) : ObjRef → ObjKind
  | .vertexPose j => match vs[j]? with
    | some w => .pose w.kind
    | none => .none
  | .estimate => e.estimate
  | .offset => e.offset

/-- the facts `EdgeOdometry.is_valid` / `EdgeLandmark.is_valid` read; `self._is_valid()` is the model of
    `BaseEdge._is_valid`.  (An index beyond the bound vertices would raise `IndexError`; the source's first guard excludes
    it, the fact is then irrelevant.) -/
def edgeValidFacts (e : EdgeDesc) (vertices : Option (List VertexDesc)) : EdgeValidFacts where
  baseValid := isValidBase e vertices
  numVertices := (vertices.getD []).length
  isInst := fun o i =>
    match (vertices.getD [])[i]? with
    | some v => (objKind e (vertices.getD []) o).isInstance v.kind
    | none => false
  compactDim := fun i =>
    match (vertices.getD [])[i]? with
    | some v => v.kind.compactDim
    | none => 0
  infoShape := e.infoShape

/-- **`EdgeOdometry.is_valid`** (edge_odometry.py:61-71): `not self._is_valid() or len(self.vertices) != 2` → False;
    `pose_type = type(self.vertices[0].pose)`; second pose `or` estimate not an instance of it → False; information shape
    `== (n, n)` with `n = pose_type.COMPACT_DIMENSIONALITY`. -/
theorem isValidOdometry_is_source (e : EdgeDesc) (vertices : Option (List VertexDesc)) :
    .ok (isValidOdometry e vertices) = run (edgeValidFacts e vertices) CmpPy.EdgeOdometry_is_valid := by
  unfold isValidOdometry CmpPy.EdgeOdometry_is_valid CmpPy.EdgeOdometry_is_valid_cond_0 CmpPy.EdgeOdometry_is_valid_ret_0
    CmpPy.EdgeOdometry_is_valid_cond_1 CmpPy.EdgeOdometry_is_valid_ret_1 CmpPy.EdgeOdometry_is_valid_ret_2 edgeValidFacts
  cmp_eval
  cases hb : isValidBase e vertices
  case false => simp
  match vertices with
  | none => simp [isValidBase] at hb
  | some [] => simp
  | some [_] => simp
  | some (_ :: _ :: _ :: _) => simp
  | some [v0, v1] =>
    simp only [Option.getD_some, List.length_cons, List.length_nil, objKind, List.getElem?_cons_zero,
      List.getElem?_cons_succ]
    rcases Bool.eq_false_or_eq_true ((ObjKind.pose v1.kind).isInstance v0.kind) with h1 | h1 <;>
      rcases Bool.eq_false_or_eq_true (e.estimate.isInstance v0.kind) with h2 | h2 <;> simp [h1, h2, decide_eq_beq]

/-- **`EdgeLandmark.is_valid`** (edge_landmark.py:74-86): as above with `pose_type` / `point_type` the classes of the
    first / second vertex pose: offset not a `pose_type` `or` estimate not a `point_type` → False; information shape
    `== (n, n)` with `n = point_type.COMPACT_DIMENSIONALITY`. -/
theorem isValidLandmark_is_source (e : EdgeDesc) (vertices : Option (List VertexDesc)) :
    .ok (isValidLandmark e vertices) = run (edgeValidFacts e vertices) CmpPy.EdgeLandmark_is_valid := by
  unfold isValidLandmark CmpPy.EdgeLandmark_is_valid CmpPy.EdgeLandmark_is_valid_cond_0 CmpPy.EdgeLandmark_is_valid_ret_0
    CmpPy.EdgeLandmark_is_valid_cond_1 CmpPy.EdgeLandmark_is_valid_ret_1 CmpPy.EdgeLandmark_is_valid_ret_2 edgeValidFacts
  cmp_eval
  cases hb : isValidBase e vertices
  case false => simp
  match vertices with
  | none => simp [isValidBase] at hb
  | some [] => simp
  | some [_] => simp
  | some (_ :: _ :: _ :: _) => simp
  | some [v0, v1] =>
    simp only [Option.getD_some, List.length_cons, List.length_nil, objKind, List.getElem?_cons_zero,
      List.getElem?_cons_succ]
    rcases Bool.eq_false_or_eq_true (e.offset.isInstance v0.kind) with h1 | h1 <;>
      rcases Bool.eq_false_or_eq_true (e.estimate.isInstance v1.kind) with h2 | h2 <;> simp [h1, h2, decide_eq_beq]

/-- `all(e.is_valid() for e in self._edges)` over the bound edges, as the list of element results -/
theorem allValid_eq_all (custom : CustomValid) (es : List EdgeDesc) (bound : List (List VertexDesc)) :
    allValid custom es bound = (List.zipWith (fun e b => isValid custom e (some b)) es bound).all (fun b => b) := by
  induction es generalizing bound with
  | nil => simp [allValid]
  | cons e es ih =>
    cases bound with
    | nil => simp [allValid]
    | cons b bs => cases h : isValid custom e (some b) <;> simp [allValid, h, ih]

/-- the facts the `assert` of `Graph._initialize` reads: `e.is_valid()` of every edge with its bound vertices (method
    resolution by class: the model's `isValid`) -/
def initFacts (custom : CustomValid) (es : List EdgeDesc) (bound : List (List VertexDesc)) : InitFacts where
  edgesValid := List.zipWith (fun e b => isValid custom e (some b)) es bound

/-- **`Graph.__init__` / `_initialize`** (graph.py:339-354): gradient indices, then *all* edges are bound (first `KeyError`
    wins), then the source's `assert <quantifier>(e.is_valid() for e in self._edges)` decides between the bound graph and
    `AssertionError`. -/
theorem construct_is_source (custom : CustomValid) (vs : List VertexDesc) (es : List EdgeDesc) :
    construct custom vs es =
      (let g := gradLoop vs 0
       match bindAll vs es with
       | .error err => .error err
       | .ok bound =>
         if CmpPy.Graph_initialize_assert (initFacts custom es bound) = true then
           .ok { gradientIndex := g.1, lenGradient := g.2, edgeVertices := bound }
         else .error .assertionError) := by
  unfold construct CmpPy.Graph_initialize_assert initFacts
  simp only [allValid_eq_all]
  rfl

/-- `e.is_valid()` on the regenerated bodies; a user-defined class decides for itself (`custom`) -/
def sourceIsValid (custom : CustomValid) (e : EdgeDesc) (vertices : Option (List VertexDesc)) : Res Bool :=
  match e.cls with
  | .odometry => run (edgeValidFacts e vertices) CmpPy.EdgeOdometry_is_valid
  | .landmark => run (edgeValidFacts e vertices) CmpPy.EdgeLandmark_is_valid
  | .custom k => .ok (custom k e vertices)

/-- method resolution of `e.is_valid()` with both tied bodies -/
theorem isValid_is_source (custom : CustomValid) (e : EdgeDesc) (vertices : Option (List VertexDesc)) :
    .ok (isValid custom e vertices) = sourceIsValid custom e vertices := by
  unfold isValid sourceIsValid
  cases e.cls <;> simp only [isValidOdometry_is_source, isValidLandmark_is_source]

/-- `BaseEdge._is_valid`, one level unfolded -/
theorem isValidBase_unfolded (e : EdgeDesc) (vertices : Option (List VertexDesc)) :
    (.ok (isValidBase e vertices) : Res Bool) =
      (let f := baseValidFacts e vertices
       branch (CmpPy.BaseEdge_is_valid_base_cond_0 f) (CmpPy.BaseEdge_is_valid_base_ret_0 f) <|
       branch (CmpPy.BaseEdge_is_valid_base_cond_1 f) (CmpPy.BaseEdge_is_valid_base_ret_1 f) <|
       CmpPy.BaseEdge_is_valid_base_ret_2 f) := by
  rw [isValidBase_is_source]; rfl

/-- `EdgeOdometry.is_valid`, one level unfolded -/
theorem isValidOdometry_unfolded (e : EdgeDesc) (vertices : Option (List VertexDesc)) :
    (.ok (isValidOdometry e vertices) : Res Bool) =
      (let f := edgeValidFacts e vertices
       branch (CmpPy.EdgeOdometry_is_valid_cond_0 f) (CmpPy.EdgeOdometry_is_valid_ret_0 f) <|
       branch (CmpPy.EdgeOdometry_is_valid_cond_1 f) (CmpPy.EdgeOdometry_is_valid_ret_1 f) <|
       CmpPy.EdgeOdometry_is_valid_ret_2 f) := by
  rw [isValidOdometry_is_source]; rfl

/-- `EdgeLandmark.is_valid`, one level unfolded -/
theorem isValidLandmark_unfolded (e : EdgeDesc) (vertices : Option (List VertexDesc)) :
    (.ok (isValidLandmark e vertices) : Res Bool) =
      (let f := edgeValidFacts e vertices
       branch (CmpPy.EdgeLandmark_is_valid_cond_0 f) (CmpPy.EdgeLandmark_is_valid_ret_0 f) <|
       branch (CmpPy.EdgeLandmark_is_valid_cond_1 f) (CmpPy.EdgeLandmark_is_valid_ret_1 f) <|
       CmpPy.EdgeLandmark_is_valid_ret_2 f) := by
  rw [isValidLandmark_is_source]; rfl

end validity

/-! ## facts that are method calls are themselves runs of regenerated sequences

The `…Facts` functions give a guard that calls another method the *model* of that method; with the tie theorems above each
such fact is again `run … <generated steps>`, so the whole call tree of `Graph.equals` and of the constructor's `assert`
is covered by regenerated statements (the leaves are the atomic facts: class tags, ids, shapes, norms). -/

section calls
variable {E : Type} [CmpScalar E]

theorem vertexFacts_poseEquals (tol : E) (v w : Vertex E) :
    (vertexFacts tol v w).poseEquals = run (poseFacts tol v.pose w.pose) CmpPy.BasePose_equals :=
  poseEquals_is_source tol v.pose w.pose

theorem edgeFacts_estPoseEquals (tol : E) (a b : Edge E) (p q : Pose E) (ha : a.estimate = .pose p)
    (hb : b.estimate = .pose q) : (edgeFacts tol a b).estPoseEquals = run (poseFacts tol p q) CmpPy.BasePose_equals := by
  simp only [edgeFacts, ha, hb, poseEquals_is_source]

theorem landmarkFacts_offsetEquals (tol : E) (a b : Edge E) (p q : Pose E) (ha : a.offset = .pose p)
    (hb : b.offset = .pose q) : (landmarkFacts tol a b).offsetEquals = run (poseFacts tol p q) CmpPy.BasePose_equals := by
  simp only [landmarkFacts, ha, hb, poseEquals_is_source]

theorem landmarkFacts_baseEquals (tol : E) (a b : Edge E) :
    (landmarkFacts tol a b).baseEquals = run (edgeFacts tol a b) CmpPy.BaseEdge_equals :=
  baseEdgeEquals_is_source tol a b

theorem graphFacts_edges (tol : E) (g h : Graph E) :
    (graphFacts tol g h).edgesSelfOther = List.zipWith (sourceEdgeEquals tol) g.edges h.edges := by
  simp only [graphFacts]
  congr 1
  funext a b
  exact edgeEquals_is_source tol a b

theorem graphFacts_vertices (tol : E) (g h : Graph E) :
    (graphFacts tol g h).verticesSelfOther =
      List.zipWith (fun v w => run (vertexFacts tol v w) CmpPy.Vertex_equals) g.vertices h.vertices := by
  simp only [graphFacts]
  congr 1
  funext v w
  exact vertexEquals_is_source tol v w

theorem edgeValidFacts_baseValid (e : EdgeDesc) (vertices : Option (List VertexDesc)) :
    (.ok (edgeValidFacts e vertices).baseValid : Res Bool) = run (baseValidFacts e vertices) CmpPy.BaseEdge_is_valid_base :=
  isValidBase_is_source e vertices

theorem initFacts_edgesValid (custom : CustomValid) (es : List EdgeDesc) (bound : List (List VertexDesc)) :
    (initFacts custom es bound).edgesValid.map (fun b => (.ok b : Res Bool)) =
      List.zipWith (fun e b => sourceIsValid custom e (some b)) es bound := by
  simp only [initFacts, List.map_zipWith]
  congr 1
  funext e b
  exact isValid_is_source custom e (some b)

end calls

/-! ## the generated sequences evaluate (concrete instances)

`run` of the regenerated statements on the facts of concrete descriptors reaches the early returns, the final return and
the exception; the toy scalar (`Int`, `sqrt` = integer square root, `/` = integer division) only serves these examples. -/

section examples

/-- an SE(2) odometry edge between two SE(2) vertices with 3×3 information: the final `return` is reached and true -/
example :
    run (edgeValidFacts ⟨.odometry, [7, 9], .pose .se2, .none, [3, 3]⟩ (some [⟨7, .se2⟩, ⟨9, .se2⟩]))
      CmpPy.EdgeOdometry_is_valid = .ok true := by rfl

/-- … the same edge with an R² estimate stops at the second guard -/
example :
    run (edgeValidFacts ⟨.odometry, [7, 9], .pose .r2, .none, [3, 3]⟩ (some [⟨7, .se2⟩, ⟨9, .se2⟩]))
      CmpPy.EdgeOdometry_is_valid = .ok false := by rfl

/-- an SE(2) → R² landmark edge with SE(2) offset, R² estimate, 2×2 information is valid; 3×3 information is not -/
example :
    run (edgeValidFacts ⟨.landmark, [1, 2], .pose .r2, .pose .se2, [2, 2]⟩ (some [⟨1, .se2⟩, ⟨2, .r2⟩]))
        CmpPy.EdgeLandmark_is_valid = .ok true ∧
    run (edgeValidFacts ⟨.landmark, [1, 2], .pose .r2, .pose .se2, [3, 3]⟩ (some [⟨1, .se2⟩, ⟨2, .r2⟩]))
        CmpPy.EdgeLandmark_is_valid = .ok false := by
  constructor <;> rfl

/-- `_is_valid`: unbound, wrong count, wrong id, fine -/
example :
    run (baseValidFacts ⟨.odometry, [1, 2], .none, .none, []⟩ none) CmpPy.BaseEdge_is_valid_base = .ok false ∧
    run (baseValidFacts ⟨.odometry, [1, 2], .none, .none, []⟩ (some [⟨1, .r2⟩])) CmpPy.BaseEdge_is_valid_base = .ok false ∧
    run (baseValidFacts ⟨.odometry, [1, 2], .none, .none, []⟩ (some [⟨1, .r2⟩, ⟨3, .r2⟩])) CmpPy.BaseEdge_is_valid_base
      = .ok false ∧
    run (baseValidFacts ⟨.odometry, [1, 2], .none, .none, []⟩ (some [⟨1, .r2⟩, ⟨2, .r2⟩])) CmpPy.BaseEdge_is_valid_base
      = .ok true := by
  refine ⟨?_, ?_, ?_, ?_⟩ <;> rfl

/-- toy arithmetic for the `equals` examples -/
local instance toyScalar : CmpScalar Int where
  zero := 0
  sqrt x := (((List.range (x.toNat + 1)).filter (fun k => k * k ≤ x.toNat)).length - 1 : Nat)
  div a b := a / b
  lt a b := decide (a < b)
  ge a b := decide (a ≥ b)

/-- `BasePose.equals` on the toy scalar: equal R² poses → True (final return); a pose at distance 5 of (3,4) → False;
    a different class → False (guard); arrays of lengths 2 and 3 → `ValueError` from the subtraction -/
example :
    run (poseFacts (1 : Int) ⟨.r2, [3, 4]⟩ ⟨.r2, [3, 4]⟩) CmpPy.BasePose_equals = .ok true ∧
    run (poseFacts (1 : Int) ⟨.r2, [3, 4]⟩ ⟨.r2, [0, 0]⟩) CmpPy.BasePose_equals = .ok false ∧
    run (poseFacts (1 : Int) ⟨.r2, [3, 4]⟩ ⟨.se2, [3, 4, 0]⟩) CmpPy.BasePose_equals = .ok false ∧
    run (poseFacts (1 : Int) ⟨.r2, [3, 4]⟩ ⟨.r2, [3, 4, 0]⟩) CmpPy.BasePose_equals = .error .valueError := by
  refine ⟨?_, ?_, ?_, ?_⟩ <;> rfl

/-- `EdgeLandmark.equals` on the toy scalar: a `None` offset on both sides passes the two class guards and raises
    `AttributeError` at the third statement; equal landmark edges reach `BaseEdge.equals` and its final return -/
example :
    run (landmarkFacts (1 : Int) ⟨.landmark, [1, 2], [2, 2], [1, 0, 0, 1], .pose ⟨.r2, [3, 4]⟩, .none, some 0⟩
          ⟨.landmark, [1, 2], [2, 2], [1, 0, 0, 1], .pose ⟨.r2, [3, 4]⟩, .none, some 0⟩) CmpPy.EdgeLandmark_equals
      = .error .attributeError ∧
    run (landmarkFacts (1 : Int) ⟨.landmark, [1, 2], [2, 2], [1, 0, 0, 1], .pose ⟨.r2, [3, 4]⟩, .pose ⟨.se2, [0, 0, 0]⟩, some 0⟩
          ⟨.landmark, [1, 2], [2, 2], [1, 0, 0, 1], .pose ⟨.r2, [3, 4]⟩, .pose ⟨.se2, [0, 0, 0]⟩, some 0⟩)
        CmpPy.EdgeLandmark_equals = .ok true ∧
    run (landmarkFacts (1 : Int) ⟨.landmark, [1, 2], [2, 2], [1, 0, 0, 1], .pose ⟨.r2, [3, 4]⟩, .pose ⟨.se2, [0, 0, 0]⟩, some 0⟩
          ⟨.landmark, [1, 2], [2, 2], [1, 0, 0, 1], .pose ⟨.r2, [3, 4]⟩, .pose ⟨.se2, [0, 0, 0]⟩, none⟩)
        CmpPy.EdgeLandmark_equals = .ok false := by
  refine ⟨?_, ?_, ?_⟩ <;> rfl

end examples

end GraphSlam.Props.Tie.CmpPy
