import GraphSlam.Generated.GraphPy
import GraphSlam.Model.Ctl
import GraphSlam.Model.Assembly
import GraphSlam.Model.GraphIter
import GraphSlam.Model.Run
import GraphSlam.Model.NumJac

/-!
# Kernel-checked tie between the hand-written models of `graph.py` and the decision expressions of the current source

`GraphSlam/Generated/GraphPy.lean` is regenerated on every run by `tools/translate/py2lean_graph.py` from the AST of
`/repo/graphslam/graph.py`: the `rel_diff` formula and the stopping test (both sites of `Graph.optimize`), the `i > 0` guard,
the initial `chi2_prev`, the key/transpose rule of `_Chi2GradientHessian.update`, the tests of the gradient / Hessian fill
loops and of the update loop, the fixed-index comprehension, `fix_first_pose`'s index, the first gradient index.  The
translator also checks, structurally, the statements around them (what the early return records, statement order, the
`reduce`, fresh zero arrays, `v.pose += dx[g : g + c]`, the id dictionary, the plain sum of `calc_chi2`).

The theorems below state that each hand-written model function *is* the corresponding fold / branch over these generated
expressions.  A change of the source that alters one of them changes the generated definition and the theorem stops
checking (a broken tie; ./check then searches the implementation for a failing input).  Mathlib-free.
-/

namespace GraphSlam.Props.Tie
open GraphSlam GraphSlam.Model GraphSlam.Gen

section ctl
variable {K : Type} [ScalarF K]

/-- `rel_diff` of the model is the in-loop expression of graph.py -/
theorem relDiff_is_source_loop (eps prev cur : K) : relDiff eps prev cur = GraphPy.optimize_rel_diff_loop eps prev cur := rfl

/-- … and the expression after the loop -/
theorem relDiff_is_source_final (eps prev cur : K) : relDiff eps prev cur = GraphPy.optimize_rel_diff_final eps prev cur := rfl

/-- the model's stopping test is the in-loop `if` of graph.py applied to that `rel_diff` -/
theorem stopTest_is_source_loop (tol eps prev cur : K) :
    stopTest tol eps prev cur = GraphPy.optimize_stop_loop tol prev cur (GraphPy.optimize_rel_diff_loop eps prev cur) := rfl

/-- … and the final `ret.converged = …` -/
theorem stopTest_is_source_final (tol eps prev cur : K) :
    stopTest tol eps prev cur = GraphPy.optimize_stop_final tol prev cur (GraphPy.optimize_rel_diff_final eps prev cur) := rfl

/-- `chi2_prev = -1.0` -/
theorem chi2_prev_init_is_source : (Scalar.ofInt (-1) : K) = GraphPy.optimize_chi2_prev_init := rfl

/-- one pass of the model's loop body, written with the source's own decisions: the convergence check is guarded by the
    source's `i > 0`, uses the source's `rel_diff` and returns early exactly when the source's test fires -/
theorem ctlLoop_step_is_source (tol eps : K) (c : Nat → K) (n i : Nat) (prev : K) (ret : Report K) :
    ctlLoop tol eps c (n + 1) i prev ret =
      (let ret := { ret with iters := ret.iters ++ [IterResult.mk none none false] }
       let chi2 := c i
       if GraphPy.optimize_check_guard i = true then
         let rel := GraphPy.optimize_rel_diff_loop eps prev chi2
         let ret := { ret with iters := setSecondLast ret.iters chi2 (-rel) }
         if GraphPy.optimize_stop_loop tol prev chi2 rel = true then
           Sum.inl { ret with converged := true, numIterations := some i, finalChi2 := some chi2 }
         else
           ctlLoop tol eps c n (i + 1) chi2 { ret with iters := setLast ret.iters (fun r => { r with complete := true }) }
       else
         let ret := { ret with initialChi2 := some chi2 }
         ctlLoop tol eps c n (i + 1) chi2 { ret with iters := setLast ret.iters (fun r => { r with complete := true }) }) := by
  simp only [ctlLoop, GraphPy.optimize_check_guard, decide_eq_true_eq]
  rfl

/-- the tail of the model (after the loop) uses the source's final `rel_diff` and `converged` expression, and the loop
    starts from the source's initial `chi2_prev` -/
theorem optimizeCtl_is_source (tol eps : K) (maxIter : Nat) (c : Nat → K) :
    optimizeCtl tol eps maxIter c =
      (match ctlLoop tol eps c maxIter 0 GraphPy.optimize_chi2_prev_init (Report.mk false none none none []) with
       | Sum.inl r => .ok r
       | Sum.inr (prev, ret) =>
         if ret.iters.isEmpty then .error .indexError else
         let chi2 := c maxIter
         let rel := GraphPy.optimize_rel_diff_final eps prev chi2
         let ret := { ret with iters := setLast ret.iters (fun r => { r with chi2 := some chi2, relDiff := some (-rel) }) }
         .ok { ret with converged := GraphPy.optimize_stop_final tol prev chi2 rel, numIterations := some maxIter,
                        finalChi2 := some chi2 }) := rfl

end ctl

section assembly
variable {E : Type} [Scalar E]

/-- `_Chi2GradientHessian.update`, Hessian part: every contribution is added under the source's key
    (`(idx1, idx2)` or the swapped pair) and transposed exactly when the source transposes it -/
theorem update_h_is_source (acc : Acc E) (inc : Contribs E) :
    (update acc inc).h =
      inc.hess.foldl (fun d (p : (Nat × Nat) × Block E) =>
        Dict.addAt Block.add d (GraphPy.update_hessian_key p.1.1 p.1.2)
          (if GraphPy.update_hessian_transposed p.1.1 p.1.2 = true then p.2.transpose else p.2)) acc.h := by
  unfold update
  simp only
  congr 1
  funext d p
  unfold GraphPy.update_hessian_key GraphPy.update_hessian_transposed
  by_cases h : p.1.1 ≤ p.1.2 <;> simp [h]

/-- the gradient fill adds a dictionary entry exactly when the source's test (`not in fixed`) holds -/
theorem fillGradient_is_source (fixed : List Nat) (g : Dict Nat (Seg E)) :
    fillGradient fixed g =
      g.foldl (fun vec (p : Nat × Seg E) =>
        if GraphPy.fill_gradient_test fixed p.1 = true then
          (fun i => if p.1 ≤ i ∧ i < p.1 + p.2.len then vec i + p.2.get (i - p.1) else vec i)
        else vec) (fun _ => Scalar.ofInt 0) := by
  unfold fillGradient
  congr 1
  funext vec p
  unfold GraphPy.fill_gradient_test
  by_cases h : p.1 ∈ fixed <;> simp [h]

/-- the Hessian fill loop branches on the source's three tests -/
theorem fillHessianDict_is_source (fixed : List Nat) (h : Dict (Nat × Nat) (Block E)) :
    fillHessianDict fixed h =
      h.foldl (fun H (p : (Nat × Nat) × Block E) =>
        if GraphPy.fill_hessian_fixed_test fixed p.1.1 p.1.2 = true then
          (if GraphPy.fill_hessian_fixed_diag_test p.1.1 p.1.2 = true then setBlock H p.1.1 p.1.2 (eyeBlock p.2.r p.2.c) else H)
        else
          (if GraphPy.fill_hessian_mirror_test p.1.1 p.1.2 = true then
             setBlock (setBlock H p.1.1 p.1.2 p.2) p.1.2 p.1.1 p.2.transpose
           else setBlock H p.1.1 p.1.2 p.2)) (fun _ _ => Scalar.ofInt 0) := by
  unfold fillHessianDict
  congr 1
  funext H p
  unfold GraphPy.fill_hessian_fixed_test GraphPy.fill_hessian_fixed_diag_test GraphPy.fill_hessian_mirror_test
  by_cases h1 : p.1.1 ∈ fixed <;> by_cases h2 : p.1.2 ∈ fixed <;> by_cases h3 : p.1.1 = p.1.2 <;> simp [h1, h2, h3]

/-- the identity blocks of fixed vertices are written exactly for the vertices the source's test selects -/
theorem fillHessian_is_source (fixed : List Nat) (verts : List (Nat × Nat)) (h : Dict (Nat × Nat) (Block E)) :
    fillHessian fixed verts h =
      verts.foldl (fun H (v : Nat × Nat) =>
        if GraphPy.fill_fixed_vertex_test fixed v.1 = true then setBlock H v.1 v.1 (eyeBlock v.2 v.2) else H)
        (fillHessianDict fixed h) := by
  unfold fillHessian
  congr 1
  funext H v
  unfold GraphPy.fill_fixed_vertex_test
  by_cases h1 : v.1 ∈ fixed <;> simp [h1]

/-- the update loop skips exactly the vertices the source's `continue` test selects -/
theorem applyDx_is_source {P : Type} (boxplus : P → (Nat → E) → P) (fixed : List Nat) (verts : List (Nat × Nat × P))
    (dx : Nat → E) :
    applyDx boxplus fixed verts dx =
      verts.map (fun (v : Nat × Nat × P) =>
        if GraphPy.optimize_update_skip fixed v.1 = true then v else (v.1, v.2.1, boxplus v.2.2 (fun t => dx (v.1 + t)))) := by
  unfold applyDx
  congr 1
  funext v
  obtain ⟨g, d, p⟩ := v
  unfold GraphPy.optimize_update_skip
  by_cases h1 : g ∈ fixed <;> simp [h1]

end assembly

section head

/-- `{v.gradient_index for v in self._vertices if v.fixed}` -/
theorem fixedIndices_is_source (flags : List Bool) (gidx : List Nat) :
    fixedIndices flags gidx = GraphPy.optimize_fixed_set flags gidx := rfl

/-- `fix_first_pose` sets the flag of exactly the source's index (`self._vertices[0]`) -/
theorem applyFixFirst_is_source (flags : List Bool) :
    applyFixFirst true flags = flags.set GraphPy.optimize_fix_first_index true ∧ applyFixFirst false flags = flags := by
  cases flags <;> simp [applyFixFirst, GraphPy.optimize_fix_first_index]

/-- gradient indices start at the source's initial `gradient_index` -/
theorem initState_start_is_source {E : Type} [ScalarF E] (tol eps : E) (maxIter : Nat) (ffp : Bool) (flags : List Bool)
    (stepFn : List Nat → Nat → GState E → Option (GState E)) (es : List (Edge E)) (ps : List (Pose E)) :
    optimizeRunOf tol eps maxIter ffp flags stepFn es ps =
      (let s0 := initState GraphPy.initialize_first_index ps
       let flags' := applyFixFirst ffp flags
       let fixed := GraphPy.optimize_fixed_set flags' (s0.map (·.1))
       match optimizeCtl tol eps maxIter (chi2SeqOf (stepFn fixed) fixed es s0) with
       | .error e => .error e
       | .ok r => .ok (r, iterStates (stepFn fixed) s0 (r.numIterations.getD 0), flags')) := rfl

end head

section numjac
variable {E : Type} [ScalarF E] {P : Type}

/-- the model's forward-difference column is the source's `(self.calc_error() - err) / EPSILON`, entry by entry
    (base_edge.py:188; the translator also checks the perturb / restore statements around it and `EPSILON = 1e-6`) -/
theorem fdColumn_is_source (eps : E) (err0 errd : Nat → E) (a : Nat) :
    fdColumn eps err0 errd a = GraphPy.numjac_fd_entry eps (err0 a) (errd a) := rfl

/-- one pass of the model's `for d in range(dim)` loop: perturb by `eps` along `d`, take the source's difference quotient
    of the error at the perturbed store, restore a copy of the saved pose -/
theorem numJacLoop_step_is_source (err : List P → Nat → E) (boxplus : P → (Nat → E) → P) (copy : P → P) (k : Nat) (eps : E)
    (err0 : Nat → E) (p0 : P) (n d : Nat) (ps : List P) (cols : List (Nat → E)) (cur : P) (h : ps[k]? = some cur) :
    numJacLoop err boxplus copy k eps err0 p0 (n + 1) d ps cols =
      numJacLoop err boxplus copy k eps err0 p0 n (d + 1)
        (setAt (setAt ps k (boxplus cur (unitDelta d eps))) k (copy p0))
        (cols ++ [fun a => GraphPy.numjac_fd_entry eps (err0 a) (err (setAt ps k (boxplus cur (unitDelta d eps))) a)]) := by
  simp only [numJacLoop, h]
  rfl

end numjac

end GraphSlam.Props.Tie
