import GraphSlam.Core.G2OSpec
import GraphSlam.Model.G2O

/-!
# What the regenerated `.g2o` statements mean: an interpreter for the descriptors of `Core/G2OSpec.lean`

`Generated/G2OPy.lean` describes the statements of the `to_g2o` / `from_g2o` methods of the current source as data.  This file gives
those data the semantics of the Python statements they stand for, over the same objects, environment (`Env`) and exceptions
(`PyErr`) as the hand-written model `Model/G2O/*.lean`:

* `pyFormat`     — `fmt.format(*args)` for format strings whose braces occur only as `{}` (checked by the translator and, for the
                   regenerated strings, by `Tie.G2OPy.formats_plain`), `pyJoin` — `sep.join(xs)`, `pyPercent` — `fmt % (args)` with `%s`;
* `npTriu`, `npTril` — `zip(*np.triu_indices(n, k))`, `zip(*np.tril_indices(n, k))`;
* `writeVertexBy`, `writeParamBy`, `writeEdgeBy` — a `to_g2o` method as the sequence of its `if isinstance(...): return ...` branches;
* `runReader`, `runReaders` — a `from_g2o` branch as the sequence of its statements in evaluation order, over a small state
  (`numbers`, `arr`, ids, pose, offset, information); pose constructors are applied as described by the regenerated `__new__`;
* `writeGraphBy`, `parseLineBy` — the loops of `Graph.to_g2o` / the attempts of `Graph.from_g2o` in the regenerated order.

`Props/Tie/G2OPy.lean` proves that each function of the hand-written model equals the interpretation of the regenerated data.
An ill-formed program (a statement using something that no earlier statement defined — the translator refuses to emit these)
evaluates to the model-only exception `PyErr.unbound`.  Mathlib-free.
-/

namespace GraphSlam.Props.Tie.G2O
open GraphSlam.Model.G2O GraphSlam.G2OSpec

variable {A : Type}

/-! ### Python string operations -/

/-- `fmt.format(*args)`, faithful for format strings whose braces occur only as `{}`: every `{}` takes the next
argument (`IndexError` when there is none), surplus arguments are ignored, a brace that is not part of `{}` is answered with
`ValueError` (CPython does so for a lone brace; `{{`, `{0}`, `{name}` are outside the modelled fragment) -/
def pyFormat : Str → List Str → Except PyErr Str
  | [], _ => .ok []
  | c :: cs, as =>
    if c = '{' then
      match cs with
      | [] => .error .valueError
      | d :: cs' =>
        if d = '}' then
          match as with
          | [] => .error .indexError
          | a :: as' =>
            match pyFormat cs' as' with
            | .ok s => .ok (a ++ s)
            | .error e => .error e
        else .error .valueError
    else if c = '}' then .error .valueError
    else
      match pyFormat cs as with
      | .ok s => .ok (c :: s)
      | .error e => .error e

/-- the braces of a format string occur only as `{}` (the fragment of `str.format` that `pyFormat` models) -/
def plainFields : Str → Bool
  | [] => true
  | c :: cs =>
    if c = '{' then
      match cs with
      | [] => false
      | d :: cs' => d = '}' && plainFields cs'
    else c ≠ '}' && plainFields cs

/-- `sep.join(xs)` -/
def pyJoin (sep : Str) : List Str → Str
  | [] => []
  | [t] => t
  | t :: u :: ts => t ++ sep ++ pyJoin sep (u :: ts)

/-- `fmt % (args...)` for formats whose only conversion is `%s` (a `%` followed by anything else: `ValueError`;
too few arguments: CPython raises `TypeError`, rendered here as the model-only `unbound`) -/
def pyPercent : Str → List Str → Except PyErr Str
  | [], _ => .ok []
  | c :: cs, as =>
    if c = '%' then
      match cs with
      | [] => .error .valueError
      | d :: cs' =>
        if d = 's' then
          match as with
          | [] => .error .unbound
          | a :: as' =>
            match pyPercent cs' as' with
            | .ok s => .ok (a ++ s)
            | .error e => .error e
        else .error .valueError
    else
      match pyPercent cs as with
      | .ok s => .ok (c :: s)
      | .error e => .error e

/-! ### numpy index helpers -/

/-- `zip(*np.triu_indices(n, k))`: the positions `(i, j)` of an `n × n` array with `j ≥ i + k`, row-major -/
def npTriu (n : Nat) (k : Int) : List (Nat × Nat) :=
  (List.range n).flatMap fun (i : Nat) =>
    ((List.range n).filter fun (j : Nat) => decide (Int.ofNat i + k ≤ Int.ofNat j)).map fun (j : Nat) => (i, j)

/-- `zip(*np.tril_indices(n, k))`: the positions with `j ≤ i + k`, row-major -/
def npTril (n : Nat) (k : Int) : List (Nat × Nat) :=
  (List.range n).flatMap fun (i : Nat) =>
    ((List.range n).filter fun (j : Nat) => decide (Int.ofNat j ≤ Int.ofNat i + k)).map fun (j : Nat) => (i, j)

/-- entry `(i, j)` after `mat = np.zeros(...); mat[idx] = vals` (fancy-index assignment: position `p` of `idx` receives `vals[p]`) -/
def assignAt (zero : A) (idx : List (Nat × Nat)) (vals : List A) (i j : Nat) : A :=
  if idx.contains (i, j) then vals.getD (idx.idxOf (i, j)) zero else zero

/-- `upper_triangular_matrix_to_full_matrix(arr, n)` statement by statement, with the diagonal offsets of the source:
`triu0 = np.triu_indices(n, kU); tril1 = np.tril_indices(n, kL); mat = np.zeros((n, n)); mat[triu0] = arr` (a length-1 `arr` is
broadcast, any other wrong length is a `ValueError`) `; mat[tril1] = mat.T[tril1]` (the right-hand side is evaluated before the
assignment: the positions of `tril1` receive the transposed *old* entries) -/
def expandBy (kU kL : Int) (zero : A) (n : Nat) (arr : List A) : Except PyErr (Mat A) :=
  let fill (vals : List A) : Mat A :=
    (List.range n).map fun i => (List.range n).map fun j =>
      if (npTril n kL).contains (i, j) then assignAt zero (npTriu n kU) vals j i else assignAt zero (npTriu n kU) vals i j
  if arr.length = (npTriu n kU).length then .ok (fill arr)
  else
    match arr with
    | [a] => .ok (fill (List.replicate (npTriu n kU).length a))
    | _ => .error .valueError

/-- `[str(x) for x in M[np.triu_indices(n, k)]]` -/
def fmtInfoBy (env : Env A) (M : Mat A) (n : Nat) (k : Int) : Except PyErr (List Str) :=
  match mapE (fun p => get2 M p.1 p.2) (npTriu n k) with
  | .ok xs => .ok (xs.map env.fmtF)
  | .error e => .error e

/-! ### classes and tags -/

def kindOf : Cls → PoseKind
  | .PoseR2 => .r2
  | .PoseR3 => .r3
  | .PoseSE2 => .se2
  | .PoseSE3 => .se3

/-- the class of parameter objects stored under the key `(tag, id)`: the model distinguishes the two parameter classes
by `ParamKind`, the code by the tag in the key -/
def paramKindOfTag (tag : Str) : Option ParamKind :=
  if tag = T.paramsSE2Offset then some .se2offset
  else if tag = T.paramsSE3Offset then some .se3offset
  else none

/-! ### writers -/

def evalVField (env : Env A) (v : Vertex A) : VField → Except PyErr Str
  | .id => .ok (env.fmtI v.id)
  | .pose k =>
    match getIdx v.pose.xs k with
    | .ok a => .ok (env.fmtF a)
    | .error e => .error e

/-- `Vertex.to_g2o` as the list of its branches: the first branch whose `isinstance` test holds formats its arguments
(left to right) into its format string; no branch: `NotImplementedError` -/
def writeVertexBy (env : Env A) : List VertexWriter → Vertex A → Except PyErr Str
  | [], _ => .error .notImplementedError
  | w :: ws, v =>
    if v.pose.kind = kindOf w.cls then
      match mapE (evalVField env v) w.args with
      | .ok fs => pyFormat w.fmt.toList fs
      | .error e => .error e
    else writeVertexBy env ws v

def evalPField (env : Env A) (p : Param A) : PField → Except PyErr Str
  | .keyId => .ok (env.fmtI p.id)
  | .value k =>
    match getIdx p.value.xs k with
    | .ok a => .ok (env.fmtF a)
    | .error e => .error e

/-- `G2OParameter*.to_g2o` -/
def writeParamBy (env : Env A) (w : ParamWriter) (p : Param A) : Except PyErr Str :=
  match mapE (evalPField env p) w.args with
  | .ok fs => pyFormat w.fmt.toList fs
  | .error e => .error e

/-- `self.offset_id` exists on landmark edges only (`oid = none`: the attribute is missing, `AttributeError`, rendered as `unbound`) -/
def evalEField (env : Env A) (ids : List Int) (est : List A) (oid : Option (Option Int)) : EField → Except PyErr Str
  | .vertexId k =>
    match getIdx ids k with
    | .ok z => .ok (env.fmtI z)
    | .error e => .error e
  | .offsetId =>
    match oid with
    | some o => .ok (fmtOffsetId env o)
    | none => .error .unbound
  | .estimate k =>
    match getIdx est k with
    | .ok a => .ok (env.fmtF a)
    | .error e => .error e

/-- the class of `self.vertices[i].pose` (`k0`, `k1` as in `Model.G2O.Edge.toG2O`) -/
def kindAt (k0 : PoseKind) (k1 : Except PyErr PoseKind) : Nat → Except PyErr PoseKind
  | 0 => .ok k0
  | 1 => k1
  | _ => .error .indexError

/-- `isinstance(...) and isinstance(...) and ...`: left to right, stops at the first false conjunct -/
def evalGuard (k0 : PoseKind) (k1 : Except PyErr PoseKind) : List (Nat × Cls) → Except PyErr Bool
  | [] => .ok true
  | g :: gs =>
    match kindAt k0 k1 g.1 with
    | .error e => .error e
    | .ok k => if k = kindOf g.2 then evalGuard k0 k1 gs else .ok false

/-- an edge's `to_g2o` as the list of its branches.  `off` is `(self.offset, self.offset_id)` for a landmark edge. -/
def writeEdgeBy (env : Env A) (k0 : PoseKind) (k1 : Except PyErr PoseKind) (ids : List Int) (info : Mat A) (est : List A)
    (off : Option (List A × Option Int)) : List EdgeWriter → Except PyErr (Option Str)
  | [] => .error .notImplementedError
  | w :: ws =>
    match evalGuard k0 k1 w.guard with
    | .error e => .error e
    | .ok false => writeEdgeBy env k0 k1 ids info est off ws
    | .ok true =>
      if w.identityOffsetOnly && !(match off with | some o => numEqList env o.1 (identitySE2 env) | none => false) then
        .error .notImplementedError
      else
        match mapE (evalEField env ids est (off.map (·.2))) w.args with
        | .error e => .error e
        | .ok fs =>
          match pyFormat w.fmt.toList fs with
          | .error e => .error e
          | .ok head =>
            match fmtInfoBy env info w.triuN w.triuK with
            | .error e => .error e
            | .ok ms => .ok (some (head ++ pyJoin w.sep.toList ms ++ w.tail.toList))

/-- everything the writer side of the source contributes -/
structure WriterSource where
  vertex : List VertexWriter
  odometry : List EdgeWriter
  landmark : List EdgeWriter
  paramSE2 : ParamWriter
  paramSE3 : ParamWriter
  sections : List Section
  precheckTag : String

def paramToG2OBy (src : WriterSource) (env : Env A) (p : Param A) : Except PyErr Str :=
  match p.kind with
  | .se2offset => writeParamBy env src.paramSE2 p
  | .se3offset => writeParamBy env src.paramSE3 p

/-- `e.to_g2o()` dispatched on the class of the edge object -/
def edgeToG2OBy (src : WriterSource) (env : Env A) (k0 : PoseKind) (k1 : Except PyErr PoseKind) (e : Edge A) : Except PyErr (Option Str) :=
  match e.body with
  | .odometry est => writeEdgeBy env k0 k1 e.ids e.info est.xs none src.odometry
  | .landmark est off oid => writeEdgeBy env k0 k1 e.ids e.info est.xs (some (off.xs, oid)) src.landmark
  | .custom _ _ out => .ok out

/-- `s = e.to_g2o(); if s: f.write(s)` -/
def edgeWriteBy (src : WriterSource) (env : Env A) (vs : List (Vertex A)) (e : Edge A) : Except PyErr Str :=
  match e.body with
  | .custom _ _ out => .ok (out.getD [])
  | _ =>
    match Edge.kind0 vs e with
    | .error x => .error x
    | .ok k0 =>
      match edgeToG2OBy src env k0 (Edge.kind1 vs e) e with
      | .error x => .error x
      | .ok none => .ok []
      | .ok (some s) => .ok s

/-- the pre-check of `Graph.to_g2o` for one edge, with the tag of the looked-up key taken from the source -/
def preCheckBy (src : WriterSource) (env : Env A) (params : List (Param A)) (e : Edge A) : Bool :=
  match e.body with
  | .landmark _ off oid =>
    if off.kind = .se3 then
      match oid, paramKindOfTag src.precheckTag.toList with
      | some z, some k =>
        match lookupParam params k z with
        | none => false
        | some p => numEqList env p.value.xs off.xs
      | _, _ => false
    else true
  | _ => true

/-- the `f.write(...)` calls of one loop of `Graph.to_g2o` -/
def sectionWrites (src : WriterSource) (env : Env A) (g : Graph A) : Section → List (Except PyErr Str)
  | .params => g.params.map (paramToG2OBy src env)
  | .vertices => g.vertices.map (writeVertexBy env src.vertex)
  | .edges => g.edges.map (edgeWriteBy src env g.vertices)

/-- `Graph.to_g2o`: pre-check, then the write loops in the order of the source -/
def writeGraphBy (src : WriterSource) (env : Env A) (g : Graph A) : Option (Str × Option PyErr) :=
  if g.edges.all (preCheckBy src env g.params) then some (writeSeq (src.sections.flatMap (sectionWrites src env g)))
  else none

/-! ### readers -/

/-- the value of a constructor argument: a sequence or one number -/
inductive Val (A : Type)
  | arr (xs : List A)
  | num (a : A)

def evalArg (arr : List A) : Arg → Except PyErr (Val A)
  | .whole => .ok (.arr arr)
  | .slice lo hi => .ok (.arr (match hi with | none => arr.drop lo | some h => (arr.take h).drop lo))
  | .index i =>
    match getIdx arr i with
    | .ok a => .ok (.num a)
    | .error e => .error e
  | .list is =>
    match mapE (getIdx arr) is with
    | .ok xs => .ok (.arr xs)
    | .error e => .error e

/-- one entry of the array literal of `__new__` (indexing a number: numpy's `IndexError`) -/
def evalEntry (env : Env A) (args : List (Val A)) : CtorEntry → Except PyErr A
  | .item a i =>
    match args[a]? with
    | some (.arr xs) => getIdx xs i
    | some (.num _) => .error .indexError
    | none => .error .unbound
  | .wrapped a =>
    match args[a]? with
    | some (.num x) => .ok (env.wrap x)
    | _ => .error .unbound

/-- `C(args...)` through the regenerated `C.__new__` -/
def applyCtor (env : Env A) (kind : PoseKind) (args : List (Val A)) : PoseCtor → Except PyErr (Pose A)
  | .asarray a =>
    match args[a]? with
    | some (.arr xs) => .ok ⟨kind, xs⟩
    | _ => .error .unbound
  | .entries es =>
    match mapE (evalEntry env args) es with
    | .ok xs => .ok ⟨kind, xs⟩
    | .error e => .error e

/-- `C(args...)`: the arguments are evaluated left to right, then `C.__new__` builds the array -/
def evalPose (env : Env A) (ctors : Cls → PoseCtor) (arr : List A) (cls : Cls) (args : List Arg) : Except PyErr (Pose A) :=
  match mapE (evalArg arr) args with
  | .error e => .error e
  | .ok vs => applyCtor env (kindOf cls) vs (ctors cls)

/-- the local variables of a `from_g2o` branch -/
structure RState (A : Type) where
  numbers : List Str
  arr : Option (List A) := none
  ids : Option (List Int) := none
  id : Option Int := none
  oid : Option Int := none
  offset : Option (Pose A) := none
  pose : Option (Pose A) := none
  info : Option (Mat A) := none

/-- one statement of a `from_g2o` branch -/
def step (env : Env A) (ctors : Cls → PoseCtor) (params : List (Param A)) (st : RState A) : RStmt → Except PyErr (RState A)
  | .floats frm =>
    match floats env (st.numbers.drop frm) with
    | .ok a => .ok { st with arr := some a }
    | .error e => .error e
  | .vertexIds ps =>
    match mapE (pyInt env st.numbers) ps with
    | .ok is => .ok { st with ids := some is }
    | .error e => .error e
  | .id p =>
    match pyInt env st.numbers p with
    | .ok z => .ok { st with id := some z }
    | .error e => .error e
  | .offsetId p =>
    match pyInt env st.numbers p with
    | .ok z => .ok { st with oid := some z }
    | .error e => .error e
  | .offsetFromParams tag =>
    match st.oid with
    | none => .error .unbound
    | some z =>
      match paramKindOfTag tag.toList with
      | none => .error .keyError
      | some k =>
        match lookupParam params k z with
        | none => .error .keyError
        | some p => .ok { st with offset := some p.value }
  | .offsetIdentity cls z =>
    match cls with
    | .PoseSE2 => .ok { st with offset := some ⟨.se2, identitySE2 env⟩, oid := some z }
    | _ => .error .unbound
  | .pose cls args =>
    match st.arr with
    | none => .error .unbound
    | some arr =>
      match evalPose env ctors arr cls args with
      | .ok p => .ok { st with pose := some p }
      | .error e => .error e
  | .normalize =>
    match st.pose with
    | some p => .ok { st with pose := some (normalizeSE3 env p) }
    | none => .error .unbound
  | .information frm n =>
    match st.arr with
    | none => .error .unbound
    | some arr =>
      match expandTriu env.zero n (arr.drop frm) with
      | .ok m => .ok { st with info := some m }
      | .error e => .error e

def runSteps (env : Env A) (ctors : Cls → PoseCtor) (params : List (Param A)) : RState A → List RStmt → Except PyErr (RState A)
  | st, [] => .ok st
  | st, s :: ss =>
    match step env ctors params st s with
    | .error e => .error e
    | .ok st' => runSteps env ctors params st' ss

/-- the returned object -/
def build (st : RState A) : Ctor → Except PyErr (LineOut A)
  | .vertex =>
    match st.id, st.pose with
    | some i, some p => .ok (.vertex ⟨i, p⟩)
    | _, _ => .error .unbound
  | .edgeOdometry =>
    match st.ids, st.info, st.pose with
    | some is, some m, some p => .ok (.edge ⟨is, m, .odometry p⟩)
    | _, _, _ => .error .unbound
  | .edgeLandmark =>
    match st.ids, st.info, st.pose, st.offset with
    | some is, some m, some p, some o => .ok (.edge ⟨is, m, .landmark p o st.oid⟩)
    | _, _, _, _ => .error .unbound
  | .param tag =>
    match paramKindOfTag tag.toList, st.id, st.pose with
    | some k, some i, some p => .ok (.param ⟨k, i, p⟩)
    | _, _, _ => .error .unbound

/-- the statements of a branch after `numbers = ...`, and its return -/
def runBody (env : Env A) (ctors : Cls → PoseCtor) (params : List (Param A)) (steps : List RStmt) (ctor : Ctor) (numbers : List Str) :
    Except PyErr (LineOut A) :=
  match runSteps env ctors params { numbers := numbers } steps with
  | .error e => .error e
  | .ok st => build st ctor

/-- the body of one `if line.startswith(pfx):` branch: `numbers = line[len(skip):].split()`, the statements, the return -/
def runReader (env : Env A) (ctors : Cls → PoseCtor) (params : List (Param A)) (r : Reader) (line : Str) : Except PyErr (LineOut A) :=
  runBody env ctors params r.steps r.ctor (splitWS (line.drop r.skip.toList.length))

/-- a `from_g2o` class method as the list of its branches; `none` = `return None` -/
def runReaders (env : Env A) (ctors : Cls → PoseCtor) (params : List (Param A)) : List Reader → Str → Except PyErr (Option (LineOut A))
  | [], _ => .ok none
  | r :: rs, line =>
    if startsWith r.pfx.toList line then someE (runReader env ctors params r line)
    else runReaders env ctors params rs line

/-- everything the reader side of the source contributes -/
structure ReaderSource where
  ctors : Cls → PoseCtor
  vertex : List Reader
  odometry : List Reader
  landmark : List Reader
  paramReader : ParamType → Reader
  paramTypes : List ParamType
  attempts : List Attempt

/-- `param_from_g2o(line, param_types)`: the first parameter class whose `from_g2o` returns an object -/
def paramFromG2OBy (src : ReaderSource) (env : Env A) (line : Str) : List ParamType → Except PyErr (Option (LineOut A))
  | [] => .ok none
  | t :: ts =>
    match runReaders env src.ctors [] [src.paramReader t] line with
    | .error e => .error e
    | .ok (some o) => .ok (some o)
    | .ok none => paramFromG2OBy src env line ts

def attemptBy (src : ReaderSource) (env : Env A) (customs : List (CustomType A)) (params : List (Param A)) (line : Str) :
    Attempt → Except PyErr (Option (LineOut A))
  | .vertex => runReaders env src.ctors [] src.vertex line
  | .customEdges =>
    match customFromG2O customs line params with
    | .error e => .error e
    | .ok none => .ok none
    | .ok (some e) => .ok (some (.edge e))
  | .edgeOdometry => runReaders env src.ctors params src.odometry line
  | .edgeLandmark => runReaders env src.ctors params src.landmark line
  | .params => paramFromG2OBy src env line src.paramTypes

/-- the body of the loop of `Graph.from_g2o` for one non-blank line: the attempts in the order of the source, the first
object wins; none: the line is reported as unsupported -/
def parseLineBy (src : ReaderSource) (env : Env A) (customs : List (CustomType A)) (params : List (Param A)) (line : Str) :
    List Attempt → Except PyErr (LineOut A)
  | [] => .ok .unsupported
  | a :: as =>
    match attemptBy src env customs params line a with
    | .error e => .error e
    | .ok (some o) => .ok o
    | .ok none => parseLineBy src env customs params line as

/-- the loop of `Graph.from_g2o` over the lines (blank lines skipped by `line.strip()`), every non-blank line through the
attempts of the source -/
def parseLinesBy (src : ReaderSource) (env : Env A) (customs : List (CustomType A)) : PState A → List Str → PState A × Option PyErr
  | st, [] => (st, none)
  | st, l :: ls =>
    if isBlank l then parseLinesBy src env customs st ls
    else
      match parseLineBy src env customs st.params l src.attempts with
      | .error e => (st, some e)
      | .ok out => parseLinesBy src env customs (st.push l out) ls

/-- `Graph.from_g2o(infile, custom_edge_types)` on the decoded file content -/
def fromG2OBy (src : ReaderSource) (env : Env A) (customs : List (CustomType A)) (text : Str) : ParseOut A :=
  match parseLinesBy src env customs PState.empty (readlines text) with
  | (st, some e) => ⟨st.warnings, .error e⟩
  | (st, none) => ⟨st.warnings, Graph.init st.params st.vertices st.edges⟩

end GraphSlam.Props.Tie.G2O
