import GraphSlam.Props.Tie.CmpPy
import GraphSlam.Props.C17
import GraphSlam.Props.C18

/-!
# What the regenerated statement sequences of `equals` / `is_valid` decide

The headline theorems of C17 (`Props/C17.lean`, over `ℝ`, every `tol > 0`) and C18 (`Props/C18.lean`) restated *about the
statement sequences read from the current source* (`GraphSlam.Gen.CmpPy.*`, regenerated on every run), through the tie
theorems of `Props/Tie/CmpPy.lean`: running the source's guards, in the source's order, on the facts of two well-formed
descriptors returns `True` exactly when the discrete skeletons agree and every numeric block passes
`‖a − b‖ < tol·max(‖a‖, tol)`; running the source's `is_valid` statements returns `True` exactly for the documented
well-typed edges.  Nothing here is proved anew: each statement is the C17 / C18 theorem rewritten with a tie theorem, so it
holds for the source as long as the ties check.
-/

namespace GraphSlam.Props.Tie.CmpPy
open GraphSlam.Model.Cmp GraphSlam.Model.Equals GraphSlam.Model.Validity GraphSlam.Model.CmpFacts GraphSlam.Gen
open GraphSlam.Props

variable {tol : ℝ}

/-- the statements of `BasePose.equals` in the current source never raise on well-formed poses and return `True` exactly
    when the classes agree and `‖a − b‖ < tol·max(‖a‖, tol)` -/
theorem source_pose_equals_iff (htol : 0 < tol) (a b : Pose ℝ) (ha : a.WF = true) (hb : b.WF = true) :
    (∃ r, run (poseFacts tol a b) CmpPy.BasePose_equals = .ok r) ∧
    (run (poseFacts tol a b) CmpPy.BasePose_equals = .ok true ↔
      a.kind = b.kind ∧ vnorm (zipSub a.comps b.comps) < tol * max (vnorm a.comps) tol) := by
  rw [← poseEquals_is_source]
  exact ⟨C17.pose_total htol a b ha hb, C17.pose_equals_iff htol a b ha hb⟩

/-- the statements of `Vertex.equals` in the current source -/
theorem source_vertex_equals_iff (htol : 0 < tol) (v w : Vertex ℝ) (hv : v.WF = true) (hw : w.WF = true) :
    (∃ r, run (vertexFacts tol v w) CmpPy.Vertex_equals = .ok r) ∧
    (run (vertexFacts tol v w) CmpPy.Vertex_equals = .ok true ↔
      v.id = w.id ∧ v.pose.kind = w.pose.kind ∧
        vnorm (zipSub v.pose.comps w.pose.comps) < tol * max (vnorm v.pose.comps) tol) := by
  rw [← vertexEquals_is_source]
  exact ⟨C17.vertex_total htol v w hv hw, C17.vertex_equals_iff htol v w hv hw⟩

/-- the statements of `BaseEdge.equals` / `EdgeLandmark.equals` in the current source (chosen by the class of `self`:
    `sourceEdgeEquals`) never raise on well-formed edges and return `True` exactly when the discrete skeletons agree and
    every numeric block is within the tolerance test -/
theorem source_edge_equals_iff (htol : 0 < tol) (a b : Edge ℝ) (ha : a.WF = true) (hb : b.WF = true) :
    (∃ r, sourceEdgeEquals tol a b = .ok r) ∧
    (sourceEdgeEquals tol a b = .ok true ↔ C17.EdgeSameSkeleton a b ∧ C17.EdgeNumsNear tol a b) := by
  rw [← edgeEquals_is_source]
  exact ⟨C17.edge_total htol a b ha hb, C17.edge_equals_iff htol a b ha hb⟩

/-- the statements of `Graph.equals` in the current source never raise on well-formed graphs and return `True` exactly when
    both lists have the same lengths and agree position by position -/
theorem source_graph_equals_iff (htol : 0 < tol) (g h : Graph ℝ) (hg : g.WF = true) (hh : h.WF = true) :
    (∃ r, run (graphFacts tol g h) CmpPy.Graph_equals = .ok r) ∧
    (run (graphFacts tol g h) CmpPy.Graph_equals = .ok true ↔
      List.Forall₂ (fun a b => C17.EdgeSameSkeleton a b ∧ C17.EdgeNumsNear tol a b) g.edges h.edges ∧
      List.Forall₂ (C17.VertexClose tol) g.vertices h.vertices) := by
  rw [← graphEquals_is_source]
  exact ⟨C17.graph_total htol g h hg hh, C17.graph_equals_iff htol g h hg hh⟩

/-- the statements of `EdgeOdometry.is_valid` in the current source accept exactly the documented well-typed odometry
    edges: two vertices with the edge's ids, both poses and the estimate of one class `T`, information `c_T × c_T` -/
theorem source_odometry_valid_iff (e : EdgeDesc) (vs : List VertexDesc) :
    run (edgeValidFacts e (some vs)) CmpPy.EdgeOdometry_is_valid = .ok true ↔ C18.WellTypedOdometry e vs := by
  rw [← isValidOdometry_is_source, ← C18.valid_iff_welltyped_odometry]
  exact ⟨fun h => by injection h, fun h => by rw [h]⟩

/-- the statements of `EdgeLandmark.is_valid` in the current source accept exactly the documented well-typed landmark
    edges: offset of the first pose's class, estimate of the second pose's class `T₁`, information `c_{T₁} × c_{T₁}` -/
theorem source_landmark_valid_iff (e : EdgeDesc) (vs : List VertexDesc) :
    run (edgeValidFacts e (some vs)) CmpPy.EdgeLandmark_is_valid = .ok true ↔ C18.WellTypedLandmark e vs := by
  rw [← isValidLandmark_is_source, ← C18.valid_iff_welltyped_landmark]
  exact ⟨fun h => by injection h, fun h => by rw [h]⟩

/-- the statements of `BaseEdge._is_valid` in the current source: bound, same count, same ids in order -/
theorem source_base_valid_iff (e : EdgeDesc) (vs : List VertexDesc) :
    run (baseValidFacts e (some vs)) CmpPy.BaseEdge_is_valid_base = .ok true ↔ vs.map (·.id) = e.vertexIds := by
  rw [← isValidBase_is_source, ← C18.isValidBase_iff]
  exact ⟨fun h => by injection h, fun h => by rw [h]⟩

end GraphSlam.Props.Tie.CmpPy
