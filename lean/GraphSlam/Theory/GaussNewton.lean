import Mathlib.Data.Matrix.Mul
import Mathlib.Data.Real.Basic
import Mathlib.Tactic.Ring
import Mathlib.Tactic.Linarith
import Mathlib.Tactic.Abel

/-!
# Layer C — Gauss–Newton on a quadratic form (code-independent matrix theory)

`chi2 Ω r = rᵀ Ω r`.  For a linearised residual `r(d) = e + J d`:

* `chi2_add`              `χ²(r + w) = χ²(r) + 2 wᵀΩr + wᵀΩw` (symmetric `Ω`);
* `gn_minimises_fixed`    if `dx` vanishes on the fixed set `F` and satisfies the assembled equations on the free rows,
                          then `χ²(e + J dx) ≤ χ²(e + J d)` for every `d` vanishing on `F` (PSD `Ω`);
* `gn_unique`             … with equality only for `J (d − dx)` in the null cone of `Ω`; hence `d = dx` when the reduced
                          Hessian is positive definite;
* `stationary_zero_step`  at a point where the free gradient vanishes, `dx = 0` solves the assembled equations;
* `descent`               `bᵀdx = −dxᵀ H dx` for a solution: the step is a descent direction of the quadratic model;
* `chi2_smul`, `chi2_info_add`   scaling / splitting the information matrix (C08).
-/

namespace GraphSlam.Theory
open Matrix

variable {m N : Nat}

/-- `rᵀ Ω r` -/
def chi2 (Ω : Matrix (Fin m) (Fin m) ℝ) (r : Fin m → ℝ) : ℝ := r ⬝ᵥ (Ω *ᵥ r)

theorem dot_mulVec_symm (Ω : Matrix (Fin m) (Fin m) ℝ) (hs : Ωᵀ = Ω) (u v : Fin m → ℝ) :
    u ⬝ᵥ (Ω *ᵥ v) = v ⬝ᵥ (Ω *ᵥ u) := by
  rw [dotProduct_mulVec, dotProduct_comm, ← mulVec_transpose, hs]

theorem chi2_add (Ω : Matrix (Fin m) (Fin m) ℝ) (hs : Ωᵀ = Ω) (r w : Fin m → ℝ) :
    chi2 Ω (r + w) = chi2 Ω r + 2 * (w ⬝ᵥ (Ω *ᵥ r)) + chi2 Ω w := by
  unfold chi2
  rw [mulVec_add, add_dotProduct, dotProduct_add, dotProduct_add, dot_mulVec_symm Ω hs r w]
  ring

/-- `wᵀ Ω r` with `w = J v` is `vᵀ (Jᵀ Ω r)` -/
theorem mulVec_dot (J : Matrix (Fin m) (Fin N) ℝ) (v : Fin N → ℝ) (y : Fin m → ℝ) :
    (J *ᵥ v) ⬝ᵥ y = v ⬝ᵥ (Jᵀ *ᵥ y) := by
  rw [dotProduct_comm, dotProduct_mulVec, vecMul_eq_mulVec_transpose_aux J y, dotProduct_comm]
where
  vecMul_eq_mulVec_transpose_aux (J : Matrix (Fin m) (Fin N) ℝ) (y : Fin m → ℝ) : y ᵥ* J = Jᵀ *ᵥ y := by
    rw [mulVec_transpose]

/-- the Gauss–Newton matrix and right-hand side -/
def gnH (J : Matrix (Fin m) (Fin N) ℝ) (Ω : Matrix (Fin m) (Fin m) ℝ) : Matrix (Fin N) (Fin N) ℝ := Jᵀ * Ω * J
def gnB (J : Matrix (Fin m) (Fin N) ℝ) (Ω : Matrix (Fin m) (Fin m) ℝ) (e : Fin m → ℝ) : Fin N → ℝ := Jᵀ *ᵥ (Ω *ᵥ e)

theorem grad_at (J : Matrix (Fin m) (Fin N) ℝ) (Ω : Matrix (Fin m) (Fin m) ℝ) (e : Fin m → ℝ) (x : Fin N → ℝ) :
    Jᵀ *ᵥ (Ω *ᵥ (e + J *ᵥ x)) = gnB J Ω e + gnH J Ω *ᵥ x := by
  unfold gnB gnH
  rw [mulVec_add, mulVec_add, mulVec_mulVec, mulVec_mulVec, mulVec_mulVec, Matrix.mul_assoc]

/-- the assembled system the code solves: rows of fixed unknowns are `dx = 0`, free rows are the normal equations in
    which fixed columns have been dropped -/
structure SolvesAssembled (J : Matrix (Fin m) (Fin N) ℝ) (Ω : Matrix (Fin m) (Fin m) ℝ) (e : Fin m → ℝ)
    (F : Fin N → Prop) (dx : Fin N → ℝ) : Prop where
  fixed_zero : ∀ i, F i → dx i = 0
  free_rows : ∀ i, ¬ F i → (gnH J Ω *ᵥ dx) i = -(gnB J Ω e) i

/-- `χ²(e + J d) − χ²(e + J dx) = (d − dx)ᵀ H (d − dx)` for admissible `d` -/
theorem chi2_gap (J : Matrix (Fin m) (Fin N) ℝ) (Ω : Matrix (Fin m) (Fin m) ℝ) (hs : Ωᵀ = Ω) (e : Fin m → ℝ)
    (F : Fin N → Prop) (dx : Fin N → ℝ) (h : SolvesAssembled J Ω e F dx) (d : Fin N → ℝ) (hd : ∀ i, F i → d i = 0) :
    chi2 Ω (e + J *ᵥ d) = chi2 Ω (e + J *ᵥ dx) + chi2 Ω (J *ᵥ (d - dx)) := by
  have hsplit : e + J *ᵥ d = (e + J *ᵥ dx) + J *ᵥ (d - dx) := by
    rw [mulVec_sub]; abel
  rw [hsplit, chi2_add Ω hs]
  have hzero : (J *ᵥ (d - dx)) ⬝ᵥ (Ω *ᵥ (e + J *ᵥ dx)) = 0 := by
    rw [mulVec_dot, grad_at]
    unfold dotProduct
    apply Finset.sum_eq_zero
    intro i _
    by_cases hi : F i
    · simp [hd i hi, h.fixed_zero i hi]
    · have := h.free_rows i hi
      simp only [Pi.add_apply, Pi.sub_apply]
      rw [this]; ring
  rw [hzero]; ring

/-- **the Gauss–Newton step minimises the linearised χ² over all increments that keep the fixed vertices fixed** -/
theorem gn_minimises_fixed (J : Matrix (Fin m) (Fin N) ℝ) (Ω : Matrix (Fin m) (Fin m) ℝ) (hs : Ωᵀ = Ω)
    (hpsd : ∀ v : Fin m → ℝ, 0 ≤ chi2 Ω v) (e : Fin m → ℝ) (F : Fin N → Prop) (dx : Fin N → ℝ)
    (h : SolvesAssembled J Ω e F dx) (d : Fin N → ℝ) (hd : ∀ i, F i → d i = 0) :
    chi2 Ω (e + J *ᵥ dx) ≤ chi2 Ω (e + J *ᵥ d) := by
  rw [chi2_gap J Ω hs e F dx h d hd]
  linarith [hpsd (J *ᵥ (d - dx))]

/-- uniqueness: if `χ²(J v) > 0` for every non-zero admissible `v` (reduced Hessian positive definite), the minimiser is unique -/
theorem gn_unique (J : Matrix (Fin m) (Fin N) ℝ) (Ω : Matrix (Fin m) (Fin m) ℝ) (hs : Ωᵀ = Ω) (e : Fin m → ℝ)
    (F : Fin N → Prop) (hpd : ∀ v : Fin N → ℝ, (∀ i, F i → v i = 0) → v ≠ 0 → 0 < chi2 Ω (J *ᵥ v))
    (dx : Fin N → ℝ) (h : SolvesAssembled J Ω e F dx) (d : Fin N → ℝ) (hd : ∀ i, F i → d i = 0)
    (hmin : chi2 Ω (e + J *ᵥ d) ≤ chi2 Ω (e + J *ᵥ dx)) : d = dx := by
  by_contra hne
  have hv : d - dx ≠ 0 := sub_ne_zero.mpr hne
  have hadm : ∀ i, F i → (d - dx) i = 0 := by intro i hi; simp [hd i hi, h.fixed_zero i hi]
  have := hpd (d - dx) hadm hv
  rw [chi2_gap J Ω hs e F dx h d hd] at hmin
  linarith

/-- at a stationary point (free gradient zero) the zero increment solves the assembled system -/
theorem stationary_zero_step (J : Matrix (Fin m) (Fin N) ℝ) (Ω : Matrix (Fin m) (Fin m) ℝ) (e : Fin m → ℝ)
    (F : Fin N → Prop) (hstat : ∀ i, ¬ F i → (gnB J Ω e) i = 0) : SolvesAssembled J Ω e F 0 :=
  ⟨fun _ _ => rfl, fun i hi => by simp [hstat i hi]⟩

/-- conversely, if the zero increment solves it, the free gradient vanishes -/
theorem zero_step_stationary (J : Matrix (Fin m) (Fin N) ℝ) (Ω : Matrix (Fin m) (Fin m) ℝ) (e : Fin m → ℝ)
    (F : Fin N → Prop) (h : SolvesAssembled J Ω e F 0) : ∀ i, ¬ F i → (gnB J Ω e) i = 0 := by
  intro i hi; have := h.free_rows i hi; simpa using this

/-- after a Gauss–Newton step on an **affine** residual the free gradient vanishes: the next step is zero -/
theorem affine_one_step_stationary (J : Matrix (Fin m) (Fin N) ℝ) (Ω : Matrix (Fin m) (Fin m) ℝ) (e : Fin m → ℝ)
    (F : Fin N → Prop) (dx : Fin N → ℝ) (h : SolvesAssembled J Ω e F dx) :
    ∀ i, ¬ F i → (gnB J Ω (e + J *ᵥ dx)) i = 0 := by
  intro i hi
  unfold gnB
  rw [grad_at]
  have := h.free_rows i hi
  simp only [Pi.add_apply]; rw [this]; ring

/-- descent: `bᵀ dx = − dxᵀ H dx` for a solution (so `≤ 0` for PSD `Ω`) -/
theorem descent (J : Matrix (Fin m) (Fin N) ℝ) (Ω : Matrix (Fin m) (Fin m) ℝ) (e : Fin m → ℝ)
    (F : Fin N → Prop) (dx : Fin N → ℝ) (h : SolvesAssembled J Ω e F dx) :
    gnB J Ω e ⬝ᵥ dx = -(chi2 Ω (J *ᵥ dx)) := by
  have h1 : chi2 Ω (J *ᵥ dx) = dx ⬝ᵥ (gnH J Ω *ᵥ dx) := by
    unfold chi2 gnH
    rw [mulVec_dot, mulVec_mulVec, mulVec_mulVec, Matrix.mul_assoc]
  rw [h1]
  unfold dotProduct
  rw [← Finset.sum_neg_distrib]
  apply Finset.sum_congr rfl
  intro i _
  by_cases hi : F i
  · simp [h.fixed_zero i hi]
  · have := h.free_rows i hi
    rw [this]; ring

theorem descent_nonpos (J : Matrix (Fin m) (Fin N) ℝ) (Ω : Matrix (Fin m) (Fin m) ℝ)
    (hpsd : ∀ v : Fin m → ℝ, 0 ≤ chi2 Ω v) (e : Fin m → ℝ) (F : Fin N → Prop) (dx : Fin N → ℝ)
    (h : SolvesAssembled J Ω e F dx) : gnB J Ω e ⬝ᵥ dx ≤ 0 := by
  rw [descent J Ω e F dx h]; linarith [hpsd (J *ᵥ dx)]

/-- scaling the information scales χ² (C08) and leaves the solution set of the assembled system unchanged -/
theorem chi2_smul (Ω : Matrix (Fin m) (Fin m) ℝ) (c : ℝ) (r : Fin m → ℝ) : chi2 (c • Ω) r = c * chi2 Ω r := by
  unfold chi2; rw [smul_mulVec, dotProduct_smul]; simp

theorem chi2_info_add (Ω₁ Ω₂ : Matrix (Fin m) (Fin m) ℝ) (r : Fin m → ℝ) :
    chi2 (Ω₁ + Ω₂) r = chi2 Ω₁ r + chi2 Ω₂ r := by
  unfold chi2; rw [add_mulVec, dotProduct_add]

theorem solves_smul (J : Matrix (Fin m) (Fin N) ℝ) (Ω : Matrix (Fin m) (Fin m) ℝ) (e : Fin m → ℝ)
    (F : Fin N → Prop) (dx : Fin N → ℝ) (c : ℝ) (hc : c ≠ 0) :
    SolvesAssembled J (c • Ω) e F dx ↔ SolvesAssembled J Ω e F dx := by
  have hH : gnH J (c • Ω) = c • gnH J Ω := by unfold gnH; simp
  have hB : gnB J (c • Ω) e = c • gnB J Ω e := by unfold gnB; rw [smul_mulVec, mulVec_smul]
  constructor
  · intro h
    refine ⟨h.fixed_zero, fun i hi => ?_⟩
    have := h.free_rows i hi
    rw [hH, hB, smul_mulVec] at this
    simp only [Pi.smul_apply, smul_eq_mul] at this
    have h2 : c * ((gnH J Ω *ᵥ dx) i + gnB J Ω e i) = 0 := by linarith
    rcases mul_eq_zero.mp h2 with h3 | h3
    · exact absurd h3 hc
    · linarith
  · intro h
    refine ⟨h.fixed_zero, fun i hi => ?_⟩
    have := h.free_rows i hi
    rw [hH, hB, smul_mulVec]
    simp only [Pi.smul_apply, smul_eq_mul]
    rw [this]; ring

/-! ### change of variables `J' = J P` (frame changes of landmark increments, permutations of the unknowns) -/

/-- `P` does not mix fixed and free unknowns -/
def BlockDiag (F : Fin N → Prop) (P : Matrix (Fin N) (Fin N) ℝ) : Prop :=
  ∀ i j, (F i ∧ ¬ F j) ∨ (¬ F i ∧ F j) → P i j = 0

theorem gnH_reparam (J : Matrix (Fin m) (Fin N) ℝ) (Ω : Matrix (Fin m) (Fin m) ℝ) (P : Matrix (Fin N) (Fin N) ℝ) :
    gnH (J * P) Ω = Pᵀ * gnH J Ω * P := by
  unfold gnH; rw [transpose_mul]; simp only [Matrix.mul_assoc]

theorem gnB_reparam (J : Matrix (Fin m) (Fin N) ℝ) (Ω : Matrix (Fin m) (Fin m) ℝ) (e : Fin m → ℝ)
    (P : Matrix (Fin N) (Fin N) ℝ) : gnB (J * P) Ω e = Pᵀ *ᵥ gnB J Ω e := by
  unfold gnB; rw [transpose_mul, ← mulVec_mulVec]

/-- **a solution in the new variables is `P⁻¹` of a solution in the old ones**: if `dx'` solves the assembled system of
    `J' = J P` then `P dx'` solves that of `J` (`P` invertible, not mixing fixed and free unknowns) -/
theorem reparam_solves (J : Matrix (Fin m) (Fin N) ℝ) (Ω : Matrix (Fin m) (Fin m) ℝ) (e : Fin m → ℝ) (F : Fin N → Prop)
    (P Q : Matrix (Fin N) (Fin N) ℝ) (hP : BlockDiag F P) (hQ : BlockDiag F Q) (hPQ : P * Q = 1)
    (dx' : Fin N → ℝ) (h : SolvesAssembled (J * P) Ω e F dx') : SolvesAssembled J Ω e F (P *ᵥ dx') := by
  constructor
  · intro i hi
    simp only [mulVec, dotProduct]
    apply Finset.sum_eq_zero
    intro j _
    by_cases hj : F j
    · rw [h.fixed_zero j hj]; ring
    · rw [hP i j (Or.inl ⟨hi, hj⟩)]; ring
  · intro i hi
    -- y := H (P dx') + b ; Pᵀ y vanishes on free rows ; y = Qᵀ (Pᵀ y)
    set y : Fin N → ℝ := gnH J Ω *ᵥ (P *ᵥ dx') + gnB J Ω e with hy
    have hPy : ∀ j, ¬ F j → (Pᵀ *ᵥ y) j = 0 := by
      intro j hj
      have := h.free_rows j hj
      rw [gnH_reparam, gnB_reparam] at this
      have e1 : (Pᵀ * gnH J Ω * P) *ᵥ dx' = Pᵀ *ᵥ (gnH J Ω *ᵥ (P *ᵥ dx')) := by
        rw [mulVec_mulVec, mulVec_mulVec, Matrix.mul_assoc]
      rw [e1] at this
      rw [hy, mulVec_add]
      simp only [Pi.add_apply]; rw [this]; ring
    have hyQ : y = Qᵀ *ᵥ (Pᵀ *ᵥ y) := by
      rw [mulVec_mulVec, ← transpose_mul, hPQ]; simp
    have hyi : y i = 0 := by
      rw [hyQ]
      simp only [mulVec, dotProduct, transpose_apply]
      apply Finset.sum_eq_zero
      intro j _
      by_cases hj : F j
      · rw [hQ j i (Or.inl ⟨hj, hi⟩)]; ring
      · have := hPy j hj
        simp only [mulVec, dotProduct, transpose_apply] at this
        rw [this]; ring
    have : y i = (gnH J Ω *ᵥ (P *ᵥ dx')) i + gnB J Ω e i := by rw [hy]; rfl
    linarith

/-- the linearised χ² is the same function in both parametrisations -/
theorem chi2_reparam (J : Matrix (Fin m) (Fin N) ℝ) (Ω : Matrix (Fin m) (Fin m) ℝ) (e : Fin m → ℝ)
    (P : Matrix (Fin N) (Fin N) ℝ) (d : Fin N → ℝ) :
    chi2 Ω (e + (J * P) *ᵥ d) = chi2 Ω (e + J *ᵥ (P *ᵥ d)) := by
  rw [mulVec_mulVec]

end GraphSlam.Theory
