import GraphSlam.Real.Instance
import GraphSlam.Generated.Util
import Mathlib.Tactic.Ring
import Mathlib.Tactic.Linarith
import Mathlib.Tactic.FieldSimp

/-!
# The angle wrap `neg_pi_to_pi` over the reals

`Util.neg_pi_to_pi` is the *generated* definition (from `graphslam/util.py`); `wrapPi` is the mathematical
function it is proved equal to.  Everything the SE(2) theorems need about angles is here.
-/

namespace GraphSlam
open Real

/-- the integer number of turns removed by the wrap -/
noncomputable def turns (x : ℝ) : ℤ := ⌊(x + π) / (2 * π)⌋

/-- wrap to `[-π, π)` -/
noncomputable def wrapPi (x : ℝ) : ℝ := x - turns x * (2 * π)

theorem two_pi_pos : (0 : ℝ) < 2 * π := by positivity

/-- the generated `neg_pi_to_pi` is `wrapPi` (this is the tie between util.py:27 and the mathematics) -/
theorem neg_pi_to_pi_eq (x : ℝ) : Gen.Util.neg_pi_to_pi x = wrapPi x := by
  simp only [Gen.Util.neg_pi_to_pi, real_pymod, real_pi, real_ofInt, wrapPi, turns]
  push_cast
  ring

theorem wrapPi_mem (x : ℝ) : -π ≤ wrapPi x ∧ wrapPi x < π := by
  have hp := two_pi_pos
  have h1 := Int.floor_le ((x + π) / (2 * π))
  have h2 := Int.lt_floor_add_one ((x + π) / (2 * π))
  rw [le_div_iff₀ hp] at h1
  rw [div_lt_iff₀ hp] at h2
  unfold wrapPi turns
  constructor <;> nlinarith

theorem wrapPi_eq_sub (x : ℝ) : ∃ k : ℤ, wrapPi x = x - k * (2 * π) := ⟨turns x, rfl⟩

theorem turns_add_int (x : ℝ) (k : ℤ) : turns (x + k * (2 * π)) = turns x + k := by
  unfold turns
  have hp : (2 * π) ≠ 0 := ne_of_gt two_pi_pos
  have : (x + k * (2 * π) + π) / (2 * π) = (x + π) / (2 * π) + k := by field_simp; ring
  rw [this, Int.floor_add_intCast]

/-- the wrap is `2π`-periodic -/
theorem wrapPi_add_int (x : ℝ) (k : ℤ) : wrapPi (x + k * (2 * π)) = wrapPi x := by
  unfold wrapPi; rw [turns_add_int]; push_cast; ring

theorem wrapPi_sub_int (x : ℝ) (k : ℤ) : wrapPi (x - k * (2 * π)) = wrapPi x := by
  have := wrapPi_add_int x (-k); push_cast at this; rw [← this]; ring_nf

theorem wrapPi_congr {a b : ℝ} (h : ∃ k : ℤ, a = b + k * (2 * π)) : wrapPi a = wrapPi b := by
  obtain ⟨k, rfl⟩ := h; exact wrapPi_add_int b k

theorem wrapPi_of_mem {x : ℝ} (h1 : -π ≤ x) (h2 : x < π) : wrapPi x = x := by
  have hp := two_pi_pos
  have : turns x = 0 := by
    unfold turns
    rw [Int.floor_eq_iff]
    constructor
    · simp only [Int.cast_zero]; apply div_nonneg <;> linarith
    · simp only [Int.cast_zero, zero_add]; rw [div_lt_one hp]; linarith
  simp [wrapPi, this]

/-- wrapping is idempotent -/
theorem wrapPi_wrapPi (x : ℝ) : wrapPi (wrapPi x) = wrapPi x :=
  wrapPi_of_mem (wrapPi_mem x).1 (wrapPi_mem x).2

@[simp] theorem cos_wrapPi (x : ℝ) : cos (wrapPi x) = cos x := by
  unfold wrapPi; exact Real.cos_sub_int_mul_two_pi x _

@[simp] theorem sin_wrapPi (x : ℝ) : sin (wrapPi x) = sin x := by
  unfold wrapPi; exact Real.sin_sub_int_mul_two_pi x _

/-- inner wraps can be dropped under an outer wrap (any ±1 combination) -/
theorem wrapPi_add_wrapPi_left (a b : ℝ) : wrapPi (wrapPi a + b) = wrapPi (a + b) :=
  wrapPi_congr ⟨-turns a, by unfold wrapPi; push_cast; ring⟩

theorem wrapPi_add_wrapPi_right (a b : ℝ) : wrapPi (a + wrapPi b) = wrapPi (a + b) :=
  wrapPi_congr ⟨-turns b, by unfold wrapPi; push_cast; ring⟩

theorem wrapPi_sub_wrapPi_left (a b : ℝ) : wrapPi (wrapPi a - b) = wrapPi (a - b) :=
  wrapPi_congr ⟨-turns a, by unfold wrapPi; push_cast; ring⟩

theorem wrapPi_sub_wrapPi_right (a b : ℝ) : wrapPi (a - wrapPi b) = wrapPi (a - b) :=
  wrapPi_congr ⟨turns b, by unfold wrapPi; ring⟩

theorem wrapPi_neg_wrapPi (a : ℝ) : wrapPi (-wrapPi a) = wrapPi (-a) :=
  wrapPi_congr ⟨turns a, by unfold wrapPi; ring⟩

theorem cos_add_wrapPi (a b : ℝ) : cos (a + wrapPi b) = cos (a + b) := by
  rw [← cos_wrapPi (a + wrapPi b), wrapPi_add_wrapPi_right, cos_wrapPi]
theorem sin_add_wrapPi (a b : ℝ) : sin (a + wrapPi b) = sin (a + b) := by
  rw [← sin_wrapPi (a + wrapPi b), wrapPi_add_wrapPi_right, sin_wrapPi]
theorem cos_sub_wrapPi (a b : ℝ) : cos (a - wrapPi b) = cos (a - b) := by
  rw [← cos_wrapPi (a - wrapPi b), wrapPi_sub_wrapPi_right, cos_wrapPi]
theorem sin_sub_wrapPi (a b : ℝ) : sin (a - wrapPi b) = sin (a - b) := by
  rw [← sin_wrapPi (a - wrapPi b), wrapPi_sub_wrapPi_right, sin_wrapPi]

/-- `x` is not on a jump of the wrap -/
def OffWrap (x : ℝ) : Prop := ∀ k : ℤ, x + π ≠ k * (2 * π)

theorem offWrap_iff (x : ℝ) : OffWrap x ↔ -π < wrapPi x := by
  have hp := two_pi_pos
  constructor
  · intro h
    rcases lt_or_eq_of_le (wrapPi_mem x).1 with hlt | heq
    · exact hlt
    · exfalso; apply h (turns x); unfold wrapPi at heq; linarith
  · intro h k hk
    have : x = -π + k * (2 * π) := by linarith
    have h2 : wrapPi x = wrapPi (-π) := wrapPi_congr ⟨k, this⟩
    rw [h2, wrapPi_of_mem (le_refl _) (by linarith [Real.pi_pos])] at h
    exact lt_irrefl _ h

end GraphSlam
