import GraphSlam.Real.Expr

/-! Packaging of the reflection argument used by every pose-level Jacobian theorem. -/

namespace GraphSlam
open Expr

/-- If `F` is the denotation of the expression vector `fE` (`hb`, closed by `rfl` because the generated
    definitions are generic in the scalar type), `fE` is smooth at `x`, and `J` agrees entry by entry with the
    symbolic partials of `fE` (`hJ`, closed by `simp; ring`), then `J` is the Fréchet derivative of `F` at `x`. -/
theorem hasFDerivAt_of_reflect {P N m : Nat} (ps : Fin P → ℝ) (x : Fin N → ℝ)
    (F : (Fin N → ℝ) → Fin m → ℝ) (fE : Fin m → Expr P N) (J : Fin m → Fin N → ℝ)
    (hb : ∀ v i, F v i = eval ps v (fE i))
    (hs : ∀ i, Smooth ps x (fE i))
    (hJ : ∀ i j, J i j = eval ps x (diff j (fE i))) :
    HasFDerivAt F (toCLM J) x := by
  have hF : F = fun v i => eval ps v (fE i) := by funext v i; exact hb v i
  rw [hF, toCLM_congr hJ]
  exact hasFDerivAt_evalVec ps fE x hs

/-- variables / parameters as expression vectors -/
def vars (P N : Nat) : Fin N → Expr P N := fun k => Expr.var k
def pars (P N : Nat) : Fin P → Expr P N := fun k => Expr.par k

end GraphSlam

namespace GraphSlam
open Lean Parser Tactic

/-- normal-form simp set: unfold the named generated definitions and the evaluator/differentiator, decide the
    `Fin` equalities, cast the integer literals.  Deliberately `simp only` (no arithmetic rewriting). -/
macro "gs_unfold" "[" ds:ident,* "]" : tactic =>
  `(tactic| simp only [$[$ds:ident],*, vars, pars, Expr.diff, Expr.eval, eye, negM,
        Expr.add_def, Expr.sub_def, Expr.mul_def, Expr.neg_def, Expr.ofInt_def, Expr.cos_def, Expr.sin_def,
        Expr.pi_def, Expr.pymod_def, real_ofInt, real_cos, real_sin, real_pi,
        Fin.isValue, Fin.reduceEq, Fin.reduceFinMk, Fin.zero_eta, Fin.mk_one, ↓reduceIte, if_true, if_false,
        Int.cast_zero, Int.cast_one, Int.cast_ofNat, Int.cast_neg])

/-- every entry of a generated Jacobian equals the evaluated symbolic partial -/
macro "jac_entries" "[" ds:ident,* "]" : tactic =>
  `(tactic| (intro i j; fin_cases i <;> fin_cases j <;> gs_unfold [$[$ds:ident],*] <;> ring))

/-- a generated vector function is the denotation of its own instantiation at `Expr` -/
macro "reflect_rfl" : tactic => `(tactic| (intro v i; fin_cases i <;> rfl))

end GraphSlam
