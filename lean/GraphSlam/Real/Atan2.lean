import GraphSlam.Real.Wrap
import Mathlib.Analysis.SpecialFunctions.Complex.Arg
import Mathlib.Analysis.SpecialFunctions.Trigonometric.Arctan

/-!
# The real-number instance of the extended scalar interface `ScalarT` (adds `atan2`)

`math.atan2(y, x)` / `np.arctan2(y, x)` over the reals is the argument, in `(-π, π]`, of the point `(x, y)`:
`atan2R y x = Complex.arg ⟨x, y⟩` (Mathlib's `Complex.arg`; `arg 0 = 0`, as `atan2(0, 0) = 0`).  `atan2R_spec` shows that this
*is* the textbook piecewise definition through `arctan`, so nothing hides in the choice of `Complex.arg`.

What is NOT modelled (reals have no signed zero): IEEE `atan2(-0.0, x) = -π` for `x < 0`.  Over the reals `atan2R 0 x = π`
for `x < 0`; the constructor wrap that follows in `PoseSE2.from_matrix` maps both to `-π`.

The key fact for `PoseSE2.from_matrix` is `wrapPi_atan2R_mul_sin_cos`: for every `r > 0` and every real `θ`,
`wrapPi (atan2R (r sin θ) (r cos θ)) = wrapPi θ` — the wrap after `atan2` also repairs the one place (`θ ≡ π`) where
`atan2` returns `+π`, which is outside the range `[-π, π)` the pose constructor guarantees.
-/

namespace GraphSlam
open Real

/-- the real two-argument arctangent: ordinate first, as `math.atan2` -/
noncomputable def atan2R (y x : ℝ) : ℝ := Complex.arg ⟨x, y⟩

noncomputable instance instScalarTReal : ScalarT ℝ where
  toScalarF := instScalarFReal
  atan2 := atan2R

@[simp] theorem real_atan2 (y x : ℝ) : ScalarT.atan2 y x = atan2R y x := rfl

/-- `atan2` returns values in `(-π, π]` -/
theorem atan2R_mem (y x : ℝ) : -π < atan2R y x ∧ atan2R y x ≤ π :=
  ⟨Complex.neg_pi_lt_arg _, Complex.arg_le_pi _⟩

theorem atan2R_zero_zero : atan2R 0 0 = 0 := by
  unfold atan2R
  have : (⟨0, 0⟩ : ℂ) = 0 := rfl
  rw [this, Complex.arg_zero]

theorem atan2R_mk_eq_mul (r θ : ℝ) :
    (⟨r * cos θ, r * sin θ⟩ : ℂ) = (r : ℂ) * (Complex.cos θ + Complex.sin θ * Complex.I) := by
  apply Complex.ext
  · simp [← Complex.ofReal_cos, ← Complex.ofReal_sin]
  · simp [← Complex.ofReal_cos, ← Complex.ofReal_sin]

/-- the heading of a positive multiple of `(cos θ, sin θ)` is `θ` up to whole turns -/
theorem atan2R_mul_sin_cos {r : ℝ} (hr : 0 < r) (θ : ℝ) :
    ∃ k : ℤ, atan2R (r * sin θ) (r * cos θ) = θ + k * (2 * π) := by
  refine ⟨⌊(π - θ) / (2 * π)⌋, ?_⟩
  have h := Complex.arg_mul_cos_add_sin_mul_I_sub hr θ
  unfold atan2R
  rw [atan2R_mk_eq_mul]
  linarith

/-- … and it is `θ` itself when `θ ∈ (-π, π]` -/
theorem atan2R_mul_sin_cos_of_mem {r : ℝ} (hr : 0 < r) {θ : ℝ} (h1 : -π < θ) (h2 : θ ≤ π) :
    atan2R (r * sin θ) (r * cos θ) = θ := by
  unfold atan2R
  rw [atan2R_mk_eq_mul]
  exact Complex.arg_mul_cos_add_sin_mul_I hr ⟨h1, h2⟩

theorem atan2R_sin_cos_of_mem {θ : ℝ} (h1 : -π < θ) (h2 : θ ≤ π) : atan2R (sin θ) (cos θ) = θ := by
  have := atan2R_mul_sin_cos_of_mem one_pos h1 h2
  simpa using this

/-- **wrap ∘ atan2 recovers the wrapped heading**, for every real `θ` and every positive scale -/
theorem wrapPi_atan2R_mul_sin_cos {r : ℝ} (hr : 0 < r) (θ : ℝ) :
    wrapPi (atan2R (r * sin θ) (r * cos θ)) = wrapPi θ := by
  obtain ⟨k, hk⟩ := atan2R_mul_sin_cos hr θ
  rw [hk, wrapPi_add_int]

theorem wrapPi_atan2R_sin_cos (θ : ℝ) : wrapPi (atan2R (sin θ) (cos θ)) = wrapPi θ := by
  have := wrapPi_atan2R_mul_sin_cos one_pos θ
  simpa using this

/-- the one value `atan2` can return that the pose constructor does not keep: `+π` is wrapped to `-π` -/
theorem wrapPi_pi : wrapPi π = -π := by
  have h : wrapPi π = wrapPi (-π) := wrapPi_congr ⟨1, by push_cast; ring⟩
  rw [h, wrapPi_of_mem (le_refl _) (by linarith [Real.pi_pos])]

/-- `atan2 (0, x) = π` for `x < 0` (the branch cut; IEEE's `atan2(-0.0, x) = -π` has no counterpart over the reals) -/
theorem atan2R_zero_of_neg {x : ℝ} (hx : x < 0) : atan2R 0 x = π := by
  unfold atan2R
  exact Complex.arg_eq_pi_iff.2 ⟨hx, rfl⟩

/-- `cos`/`sin` of the recovered heading are the normalised abscissa / ordinate -/
theorem cos_atan2R {y x : ℝ} (h : x ≠ 0 ∨ y ≠ 0) : cos (atan2R y x) = x / sqrt (x ^ 2 + y ^ 2) := by
  unfold atan2R
  have hne : (⟨x, y⟩ : ℂ) ≠ 0 := by
    intro h0
    have h1 := congrArg Complex.re h0
    have h2 := congrArg Complex.im h0
    simp at h1 h2
    rcases h with h | h <;> contradiction
  rw [Complex.cos_arg hne, Complex.norm_def, Complex.normSq_apply]
  simp only [pow_two]

theorem sin_atan2R (y x : ℝ) : sin (atan2R y x) = y / sqrt (x ^ 2 + y ^ 2) := by
  unfold atan2R
  rw [Complex.sin_arg, Complex.norm_def, Complex.normSq_apply]
  simp only [pow_two]

/-- a point with abscissa `x ≠ 0` is a positive multiple of `(cos φ, sin φ)` or of its negative, `φ = arctan (y / x)` -/
theorem atan2R_polar_of_arctan (y x : ℝ) (hx : x ≠ 0) :
    x = (x / cos (arctan (y / x))) * cos (arctan (y / x)) ∧ y = (x / cos (arctan (y / x))) * sin (arctan (y / x)) := by
  have hc := Real.cos_arctan_pos (y / x)
  have ht := Real.tan_arctan (y / x)
  rw [Real.tan_eq_sin_div_cos] at ht
  generalize arctan (y / x) = φ at hc ht ⊢
  have hs : sin φ = (y / x) * cos φ := by rw [← ht]; field_simp
  constructor
  · field_simp
  · rw [hs]; field_simp

/-- `atan2R` is the textbook piecewise definition of the two-argument arctangent -/
theorem atan2R_spec (y x : ℝ) :
    (0 < x → atan2R y x = arctan (y / x)) ∧
    (x < 0 → 0 ≤ y → atan2R y x = arctan (y / x) + π) ∧
    (x < 0 → y < 0 → atan2R y x = arctan (y / x) - π) ∧
    (x = 0 → 0 < y → atan2R y x = π / 2) ∧
    (x = 0 → y < 0 → atan2R y x = -(π / 2)) ∧
    (x = 0 → y = 0 → atan2R y x = 0) := by
  have hpi := Real.pi_pos
  have hlo := Real.neg_pi_div_two_lt_arctan (y / x)
  have hhi := Real.arctan_lt_pi_div_two (y / x)
  have hc := Real.cos_arctan_pos (y / x)
  refine ⟨fun hx => ?_, fun hx hy => ?_, fun hx hy => ?_, fun hx hy => ?_, fun hx hy => ?_, fun hx hy => ?_⟩
  · obtain ⟨h1, h2⟩ := atan2R_polar_of_arctan y x (ne_of_gt hx)
    have hr : 0 < x / cos (arctan (y / x)) := div_pos hx hc
    have := atan2R_mul_sin_cos_of_mem hr (θ := arctan (y / x)) (by linarith) (by linarith)
    rwa [← h1, ← h2] at this
  · obtain ⟨h1, h2⟩ := atan2R_polar_of_arctan y x (ne_of_lt hx)
    have hr : 0 < -(x / cos (arctan (y / x))) := by
      rw [neg_pos]; exact div_neg_of_neg_of_pos hx hc
    have hle : arctan (y / x) ≤ 0 := Real.arctan_le_zero.2 (div_nonpos_of_nonneg_of_nonpos hy (le_of_lt hx))
    have := atan2R_mul_sin_cos_of_mem hr (θ := arctan (y / x) + π) (by linarith) (by linarith)
    rw [Real.sin_add_pi, Real.cos_add_pi, neg_mul_neg, neg_mul_neg, ← h1, ← h2] at this
    exact this
  · obtain ⟨h1, h2⟩ := atan2R_polar_of_arctan y x (ne_of_lt hx)
    have hr : 0 < -(x / cos (arctan (y / x))) := by
      rw [neg_pos]; exact div_neg_of_neg_of_pos hx hc
    have hgt : 0 < arctan (y / x) := Real.arctan_pos.2 (div_pos_of_neg_of_neg hy hx)
    have := atan2R_mul_sin_cos_of_mem hr (θ := arctan (y / x) - π) (by linarith) (by linarith)
    rw [Real.sin_sub_pi, Real.cos_sub_pi, neg_mul_neg, neg_mul_neg, ← h1, ← h2] at this
    exact this
  · subst hx
    have := atan2R_mul_sin_cos_of_mem hy (θ := π / 2) (by linarith) (by linarith)
    simpa using this
  · subst hx
    have := atan2R_mul_sin_cos_of_mem (neg_pos.2 hy) (θ := -(π / 2)) (by linarith) (by linarith)
    simpa using this
  · subst hx; subst hy; exact atan2R_zero_zero

end GraphSlam
