import GraphSlam.Real.Instance
import Mathlib.Analysis.SpecialFunctions.Trigonometric.Deriv
import Mathlib.Analysis.Calculus.FDeriv.Mul
import Mathlib.Analysis.Calculus.FDeriv.Add
import Mathlib.Analysis.Calculus.FDeriv.Pi
import Mathlib.Analysis.Calculus.FDeriv.Comp
import Mathlib.Tactic.FinCases
import Mathlib.Tactic.Ring

/-!
# A verified symbolic differentiator (proof device)

`Expr P N` is a deep embedding of scalar expressions over `P` parameters and `N` variables with exactly the
operations of the `Scalar` interface.  Because `Expr P N` is itself a `Scalar`, every generated definition can be
instantiated at it (reflection is by `rfl`).  `diff j` differentiates symbolically, and
`hasFDerivAt_evalVec` says that the matrix of symbolic partials *is* the Fréchet derivative of the real function
the expression denotes — for all parameter and variable values at which the expression is `Smooth`
(everywhere, except on the jumps of a `%`).
-/

namespace GraphSlam

inductive Expr (P N : Nat) where
  | par (i : Fin P)
  | var (i : Fin N)
  | lit (z : Int)
  | pi
  | add (a b : Expr P N)
  | sub (a b : Expr P N)
  | mul (a b : Expr P N)
  | neg (a : Expr P N)
  | cos (a : Expr P N)
  | sin (a : Expr P N)
  | pymod (a b : Expr P N)

namespace Expr
variable {P N : Nat}

instance : Scalar (Expr P N) where
  add := Expr.add
  sub := Expr.sub
  mul := Expr.mul
  neg := Expr.neg
  ofInt := Expr.lit
  cos := Expr.cos
  sin := Expr.sin
  pi := Expr.pi
  pymod := Expr.pymod

@[simp] theorem add_def (a b : Expr P N) : a + b = Expr.add a b := rfl
@[simp] theorem sub_def (a b : Expr P N) : a - b = Expr.sub a b := rfl
@[simp] theorem mul_def (a b : Expr P N) : a * b = Expr.mul a b := rfl
@[simp] theorem neg_def (a : Expr P N) : -a = Expr.neg a := rfl
@[simp] theorem ofInt_def (z : Int) : (Scalar.ofInt z : Expr P N) = Expr.lit z := rfl
@[simp] theorem cos_def (a : Expr P N) : Scalar.cos a = Expr.cos a := rfl
@[simp] theorem sin_def (a : Expr P N) : Scalar.sin a = Expr.sin a := rfl
@[simp] theorem pi_def : (Scalar.pi : Expr P N) = Expr.pi := rfl
@[simp] theorem pymod_def (a b : Expr P N) : Scalar.pymod a b = Expr.pymod a b := rfl

/-- the value an expression denotes, in any scalar type -/
def eval {α : Type} [Scalar α] (ps : Fin P → α) (xs : Fin N → α) : Expr P N → α
  | par i => ps i
  | var i => xs i
  | lit z => Scalar.ofInt z
  | pi => Scalar.pi
  | add a b => eval ps xs a + eval ps xs b
  | sub a b => eval ps xs a - eval ps xs b
  | mul a b => eval ps xs a * eval ps xs b
  | neg a => -eval ps xs a
  | cos a => Scalar.cos (eval ps xs a)
  | sin a => Scalar.sin (eval ps xs a)
  | pymod a b => Scalar.pymod (eval ps xs a) (eval ps xs b)

/-- symbolic partial derivative with respect to variable `j` (parameters are constants; the modulus of a `%`
    is treated as a constant and the `%` as locally a translation — justified by `Smooth`) -/
def diff (j : Fin N) : Expr P N → Expr P N
  | par _ => lit 0
  | var i => if i = j then lit 1 else lit 0
  | lit _ => lit 0
  | pi => lit 0
  | add a b => add (diff j a) (diff j b)
  | sub a b => sub (diff j a) (diff j b)
  | mul a b => add (mul (diff j a) b) (mul a (diff j b))
  | neg a => neg (diff j a)
  | cos a => mul (neg (sin a)) (diff j a)
  | sin a => mul (cos a) (diff j a)
  | pymod a _ => diff j a

/-- no variable occurs -/
def closed : Expr P N → Prop
  | par _ => True
  | var _ => False
  | lit _ => True
  | pi => True
  | add a b => closed a ∧ closed b
  | sub a b => closed a ∧ closed b
  | mul a b => closed a ∧ closed b
  | neg a => closed a
  | cos a => closed a
  | sin a => closed a
  | pymod a b => closed a ∧ closed b

/-- where the denoted real function is differentiable with derivative `diff`: everywhere, except that at every
    `a % b` node the modulus must be a positive constant and `a` must not sit on a multiple of it -/
def Smooth (ps : Fin P → ℝ) (xs : Fin N → ℝ) : Expr P N → Prop
  | par _ => True
  | var _ => True
  | lit _ => True
  | pi => True
  | add a b => Smooth ps xs a ∧ Smooth ps xs b
  | sub a b => Smooth ps xs a ∧ Smooth ps xs b
  | mul a b => Smooth ps xs a ∧ Smooth ps xs b
  | neg a => Smooth ps xs a
  | cos a => Smooth ps xs a
  | sin a => Smooth ps xs a
  | pymod a b => Smooth ps xs a ∧ closed b ∧ 0 < eval ps xs b ∧ ∀ k : ℤ, eval ps xs a ≠ k * eval ps xs b

theorem eval_closed (ps : Fin P → ℝ) (xs ys : Fin N → ℝ) :
    ∀ (e : Expr P N), closed e → eval ps xs e = eval ps ys e
  | par _, _ => rfl
  | var _, h => h.elim
  | lit _, _ => rfl
  | pi, _ => rfl
  | add a b, h => by simp only [eval, eval_closed ps xs ys a h.1, eval_closed ps xs ys b h.2]
  | sub a b, h => by simp only [eval, eval_closed ps xs ys a h.1, eval_closed ps xs ys b h.2]
  | mul a b, h => by simp only [eval, eval_closed ps xs ys a h.1, eval_closed ps xs ys b h.2]
  | neg a, h => by simp only [eval, eval_closed ps xs ys a h]
  | cos a, h => by simp only [eval, eval_closed ps xs ys a h]
  | sin a, h => by simp only [eval, eval_closed ps xs ys a h]
  | pymod a b, h => by simp only [eval, eval_closed ps xs ys a h.1, eval_closed ps xs ys b h.2]

/-- the gradient assembled from the symbolic partials, as a continuous linear functional -/
noncomputable def grad (ps : Fin P → ℝ) (e : Expr P N) (x : Fin N → ℝ) : (Fin N → ℝ) →L[ℝ] ℝ :=
  ∑ j, (eval ps x (diff j e)) • ContinuousLinearMap.proj (R := ℝ) (φ := fun _ : Fin N => ℝ) j

theorem grad_apply (ps : Fin P → ℝ) (e : Expr P N) (x v : Fin N → ℝ) :
    grad ps e x v = ∑ j, eval ps x (diff j e) * v j := by
  simp [grad]

open Filter Topology in
/-- **Soundness of symbolic differentiation.** -/
theorem hasFDerivAt_eval (ps : Fin P → ℝ) (e : Expr P N) (x : Fin N → ℝ) (hs : Smooth ps x e) :
    HasFDerivAt (fun v : Fin N → ℝ => eval ps v e) (grad ps e x) x := by
  induction e with
  | par i =>
    have h : grad ps (Expr.par i : Expr P N) x = 0 := by
      ext v; simp [grad_apply, diff, eval]
    rw [h]; exact hasFDerivAt_const _ _
  | var i =>
    have h : grad ps (Expr.var i : Expr P N) x = ContinuousLinearMap.proj (R := ℝ) (φ := fun _ : Fin N => ℝ) i := by
      ext v; simp [grad_apply, diff, eval, apply_ite]
    rw [h]; exact hasFDerivAt_apply i x
  | lit z =>
    have h : grad ps (Expr.lit z : Expr P N) x = 0 := by
      ext v; simp [grad_apply, diff, eval]
    rw [h]; exact hasFDerivAt_const _ _
  | pi =>
    have h : grad ps (Expr.pi : Expr P N) x = 0 := by
      ext v; simp [grad_apply, diff, eval]
    rw [h]; exact hasFDerivAt_const _ _
  | add a b iha ihb =>
    have h : grad ps (Expr.add a b) x = grad ps a x + grad ps b x := by
      ext v; simp [grad_apply, diff, eval, Finset.sum_add_distrib, add_mul]
    rw [h]; exact (iha hs.1).add (ihb hs.2)
  | sub a b iha ihb =>
    have h : grad ps (Expr.sub a b) x = grad ps a x - grad ps b x := by
      ext v; simp [grad_apply, diff, eval, Finset.sum_sub_distrib, sub_mul]
    rw [h]; exact (iha hs.1).sub (ihb hs.2)
  | mul a b iha ihb =>
    have h : grad ps (Expr.mul a b) x = eval ps x a • grad ps b x + eval ps x b • grad ps a x := by
      ext v
      simp only [grad_apply, diff, eval, _root_.add_apply, _root_.smul_apply,
        smul_eq_mul, Finset.mul_sum, ← Finset.sum_add_distrib]
      apply Finset.sum_congr rfl; intros; ring
    rw [h]; exact (iha hs.1).mul (ihb hs.2)
  | neg a iha =>
    have h : grad ps (Expr.neg a) x = - grad ps a x := by
      ext v; simp [grad_apply, diff, eval, Finset.sum_neg_distrib]
    rw [h]; exact (iha hs).neg
  | cos a iha =>
    have h : grad ps (Expr.cos a) x = (- Real.sin (eval ps x a)) • grad ps a x := by
      ext v
      simp only [grad_apply, diff, eval, _root_.smul_apply, smul_eq_mul, Finset.mul_sum, real_sin]
      apply Finset.sum_congr rfl; intros; ring
    rw [h]; exact (iha hs).cos
  | sin a iha =>
    have h : grad ps (Expr.sin a) x = (Real.cos (eval ps x a)) • grad ps a x := by
      ext v
      simp only [grad_apply, diff, eval, _root_.smul_apply, smul_eq_mul, Finset.mul_sum, real_cos]
      apply Finset.sum_congr rfl; intros; ring
    rw [h]; exact (iha hs).sin
  | pymod a b iha _ =>
    obtain ⟨hsa, hcl, hpos, hne⟩ := hs
    have ha := iha hsa
    have hB : ∀ v, eval ps v b = eval ps x b := fun v => eval_closed ps v x b hcl
    generalize hBdef : eval ps x b = B at hB hpos hne
    have hB0 : B ≠ 0 := ne_of_gt hpos
    have hnotint : ∀ k : ℤ, eval ps x a / B ≠ k := by
      intro k hk
      apply hne k
      rw [div_eq_iff hB0] at hk
      exact hk
    have hfl : ∀ᶠ v in 𝓝 x, ⌊eval ps v a / B⌋ = ⌊eval ps x a / B⌋ := by
      have hc : ContinuousAt (fun v => eval ps v a / B) x := ha.continuousAt.div_const B
      have hopen : Set.Ioo ((⌊eval ps x a / B⌋ : ℤ) : ℝ) (⌊eval ps x a / B⌋ + 1) ∈ 𝓝 (eval ps x a / B) :=
        Ioo_mem_nhds (lt_of_le_of_ne (Int.floor_le _) (Ne.symm (hnotint _))) (Int.lt_floor_add_one _)
      filter_upwards [hc hopen] with v hv
      exact Int.floor_eq_iff.mpr ⟨hv.1.le, hv.2⟩
    have heq : (fun v => eval ps v (Expr.pymod a b)) =ᶠ[𝓝 x]
        fun v => eval ps v a - B * (⌊eval ps x a / B⌋ : ℤ) := by
      filter_upwards [hfl] with v hv
      simp only [eval, real_pymod, hB v, hv]
    have hg : grad ps (Expr.pymod a b) x = grad ps a x := by
      ext v; simp [grad_apply, diff]
    rw [hg]
    exact (ha.sub_const _).congr_of_eventuallyEq heq

end Expr

/-- a matrix as a continuous linear map between coordinate spaces -/
noncomputable def toCLM {m n : Nat} (M : Fin m → Fin n → ℝ) : (Fin n → ℝ) →L[ℝ] (Fin m → ℝ) :=
  ContinuousLinearMap.pi fun i => ∑ j, M i j • ContinuousLinearMap.proj (R := ℝ) (φ := fun _ : Fin n => ℝ) j

theorem toCLM_apply {m n : Nat} (M : Fin m → Fin n → ℝ) (v : Fin n → ℝ) (i : Fin m) :
    toCLM M v i = ∑ j, M i j * v j := by
  simp [toCLM]

/-- `np.dot` of Jacobians is composition of derivatives (the chain rule's linear algebra). -/
theorem toCLM_dotMM {l m n : Nat} (A : Fin l → Fin m → ℝ) (B : Fin m → Fin n → ℝ) :
    toCLM (dotMM A B) = (toCLM A).comp (toCLM B) := by
  ext v i
  simp only [toCLM_apply, ContinuousLinearMap.comp_apply, dotMM, finSum_eq_sum, Finset.sum_mul, Finset.mul_sum]
  rw [Finset.sum_comm]
  apply Finset.sum_congr rfl; intro k _
  apply Finset.sum_congr rfl; intro j _
  ring

theorem toCLM_congr {m n : Nat} {M M' : Fin m → Fin n → ℝ} (h : ∀ i j, M i j = M' i j) : toCLM M = toCLM M' := by
  have : M = M' := by funext i j; exact h i j
  rw [this]

open Expr in
/-- vector version: the matrix of symbolic partials is the Fréchet derivative -/
theorem hasFDerivAt_evalVec {P N m : Nat} (ps : Fin P → ℝ) (f : Fin m → Expr P N) (x : Fin N → ℝ)
    (hs : ∀ i, Smooth ps x (f i)) :
    HasFDerivAt (fun v : Fin N → ℝ => fun i => eval ps v (f i))
      (toCLM (fun i j => eval ps x (diff j (f i)))) x := by
  rw [hasFDerivAt_pi']
  intro i
  have h : (ContinuousLinearMap.proj (R := ℝ) (φ := fun _ : Fin m => ℝ) i).comp
      (toCLM (fun i j => eval ps x (diff j (f i)))) = grad ps (f i) x := by
    ext v; simp [toCLM_apply, grad_apply]
  rw [h]
  exact hasFDerivAt_eval ps (f i) x (hs i)

end GraphSlam
