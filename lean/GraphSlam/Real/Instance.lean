import GraphSlam.Core.Scalar
import Mathlib.Analysis.SpecialFunctions.Trigonometric.Basic
import Mathlib.Analysis.SpecialFunctions.Sqrt
import Mathlib.Algebra.Order.Floor.Ring
import Mathlib.Data.Matrix.Mul

/-!
# The real-number instance of the scalar interface

This is the meaning of the generated definitions that the theorems are about: exact real arithmetic,
`Real.cos`/`Real.sin`/`Real.sqrt`, `π`, and Python's float `%` for a positive modulus
(`a % b = a - b * ⌊a / b⌋`).  Floating-point rounding is *not* modelled (see DESIGN.md §6).
-/

namespace GraphSlam

noncomputable instance instScalarFReal : ScalarF ℝ where
  ofInt z := (z : ℝ)
  cos := Real.cos
  sin := Real.sin
  pi := Real.pi
  pymod a b := a - b * (⌊a / b⌋ : ℤ)
  sqrt := Real.sqrt
  div a b := a / b
  gt a b := decide (a > b)
  ge a b := decide (a ≥ b)

@[simp] theorem real_ofInt (z : Int) : (Scalar.ofInt z : ℝ) = (z : ℝ) := rfl
@[simp] theorem real_cos (x : ℝ) : Scalar.cos x = Real.cos x := rfl
@[simp] theorem real_sin (x : ℝ) : Scalar.sin x = Real.sin x := rfl
@[simp] theorem real_pi : (Scalar.pi : ℝ) = Real.pi := rfl
theorem real_pymod (a b : ℝ) : Scalar.pymod a b = a - b * (⌊a / b⌋ : ℤ) := rfl
@[simp] theorem real_sqrt (x : ℝ) : ScalarF.sqrt x = Real.sqrt x := rfl
@[simp] theorem real_div (a b : ℝ) : ScalarF.div a b = a / b := rfl
@[simp] theorem real_gt (a b : ℝ) : (ScalarF.gt a b = true) ↔ a > b := by
  show decide (a > b) = true ↔ _; simp
@[simp] theorem real_ge (a b : ℝ) : (ScalarF.ge a b = true) ↔ a ≥ b := by
  show decide (a ≥ b) = true ↔ _; simp

/-- `finSum` is the finite sum. -/
theorem finSum_eq_sum : ∀ (n : Nat) (f : Fin n → ℝ), finSum n f = ∑ i, f i
  | 0, f => by simp [finSum]
  | 1, f => by simp [finSum]
  | n + 2, f => by
    rw [finSum, finSum_eq_sum (n + 1), Fin.sum_univ_castSucc (n := n + 1)]

/-- `np.dot` of two 2-D arrays is the matrix product. -/
theorem dotMM_eq_mul {m n k : Nat} (A : Fin m → Fin n → ℝ) (B : Fin n → Fin k → ℝ) :
    dotMM A B = (Matrix.of A * Matrix.of B : Matrix (Fin m) (Fin k) ℝ) := by
  funext i j; simp [dotMM, finSum_eq_sum, Matrix.mul_apply]

theorem dotMV_eq_mulVec {m n : Nat} (A : Fin m → Fin n → ℝ) (v : Fin n → ℝ) :
    dotMV A v = Matrix.mulVec (Matrix.of A) v := by
  funext i; simp [dotMV, finSum_eq_sum, Matrix.mulVec, dotProduct]

theorem dotVM_eq_vecMul {m n : Nat} (v : Fin m → ℝ) (A : Fin m → Fin n → ℝ) :
    dotVM v A = Matrix.vecMul v (Matrix.of A) := by
  funext j; simp [dotVM, finSum_eq_sum, Matrix.vecMul, dotProduct]

theorem dotVV_eq_dotProduct {n : Nat} (u v : Fin n → ℝ) : dotVV u v = u ⬝ᵥ v := by
  simp [dotVV, finSum_eq_sum, dotProduct]

end GraphSlam

namespace GraphSlam
theorem finSum_two (f : Fin 2 → ℝ) : finSum 2 f = f 0 + f 1 := rfl
theorem finSum_three (f : Fin 3 → ℝ) : finSum 3 f = f 0 + f 1 + f 2 := rfl
theorem finSum_four (f : Fin 4 → ℝ) : finSum 4 f = f 0 + f 1 + f 2 + f 3 := rfl
theorem finSum_six (f : Fin 6 → ℝ) : finSum 6 f = f 0 + f 1 + f 2 + f 3 + f 4 + f 5 := rfl
theorem finSum_seven (f : Fin 7 → ℝ) : finSum 7 f = f 0 + f 1 + f 2 + f 3 + f 4 + f 5 + f 6 := rfl
end GraphSlam
