import GraphSlam.Real.Reflect
import GraphSlam.Real.Wrap

/-!
# Dropping inner angle wraps

SE(2) poses store a wrapped angle, so a composite such as `z ⊖ (p₁ ⊖ (p₀ ⊞ δ))` wraps three times.  Only the last
wrap matters: every intermediate angle is consumed through `cos`/`sin` or inside the next wrap.  `Expr.unwrap`
removes every `%` node from a reflected expression (`(a % b)` ↦ `a`), giving a wrap-free expression that is smooth
everywhere; the edge theorems prove that the generated composite equals `wrapPi` of the unwrapped composite and
differentiate the latter.
-/

namespace GraphSlam
open Real

namespace Expr
variable {P N : Nat}

/-- replace every `a % b` by `a` -/
def unwrap : Expr P N → Expr P N
  | par i => par i
  | var i => var i
  | lit z => lit z
  | pi => pi
  | add a b => add (unwrap a) (unwrap b)
  | sub a b => sub (unwrap a) (unwrap b)
  | mul a b => mul (unwrap a) (unwrap b)
  | neg a => neg (unwrap a)
  | cos a => cos (unwrap a)
  | sin a => sin (unwrap a)
  | pymod a _ => unwrap a

theorem smooth_unwrap (ps : Fin P → ℝ) (xs : Fin N → ℝ) : ∀ e : Expr P N, Smooth ps xs (unwrap e)
  | par _ => trivial
  | var _ => trivial
  | lit _ => trivial
  | pi => trivial
  | add a b => ⟨smooth_unwrap ps xs a, smooth_unwrap ps xs b⟩
  | sub a b => ⟨smooth_unwrap ps xs a, smooth_unwrap ps xs b⟩
  | mul a b => ⟨smooth_unwrap ps xs a, smooth_unwrap ps xs b⟩
  | neg a => smooth_unwrap ps xs a
  | cos a => smooth_unwrap ps xs a
  | sin a => smooth_unwrap ps xs a
  | pymod a _ => smooth_unwrap ps xs a

end Expr

/-- the shape `% ` takes in the generated `neg_pi_to_pi` once the scalar operations are unfolded at `ℝ` -/
theorem pymod_shape (x : ℝ) : Scalar.pymod (x + π) ((2 : ℤ) * π) - π = wrapPi x := by
  have := neg_pi_to_pi_eq x
  simpa [Gen.Util.neg_pi_to_pi] using this

theorem pymod_shape' (x : ℝ) : Scalar.pymod (x + π) (2 * π) - π = wrapPi x := by
  have := pymod_shape x; push_cast at this; exact this

/-- `HasFDerivAt` survives a final `wrapPi` on the listed coordinate when that coordinate is off the wrap. -/
theorem hasFDerivAt_wrap_coord {n m : Nat} (a : Fin m) (G : (Fin n → ℝ) → Fin m → ℝ) (L : (Fin n → ℝ) →L[ℝ] (Fin m → ℝ))
    (x : Fin n → ℝ) (hG : HasFDerivAt G L x) (hoff : OffWrap (G x a)) :
    HasFDerivAt (fun v i => if i = a then wrapPi (G v i) else G v i) L x := by
  open Filter Topology in
  have hc : ContinuousAt (fun v => (G v a + π) / (2 * π)) x :=
    (((continuous_apply a).continuousAt.comp hG.continuousAt).add continuousAt_const).div_const _
  have hp := two_pi_pos
  have hnotint : ∀ k : ℤ, (G x a + π) / (2 * π) ≠ k := by
    intro k hk; apply hoff k; rw [div_eq_iff (ne_of_gt hp)] at hk; exact hk
  have hfl : ∀ᶠ v in 𝓝 x, turns (G v a) = turns (G x a) := by
    have hopen : Set.Ioo ((turns (G x a) : ℤ) : ℝ) (turns (G x a) + 1) ∈ 𝓝 ((G x a + π) / (2 * π)) :=
      Ioo_mem_nhds (lt_of_le_of_ne (Int.floor_le _) (Ne.symm (hnotint _))) (Int.lt_floor_add_one _)
    filter_upwards [hc hopen] with v hv
    exact Int.floor_eq_iff.mpr ⟨hv.1.le, hv.2⟩
  have hconst : HasFDerivAt (fun v => G v - fun i => if i = a then (turns (G x a) : ℝ) * (2 * π) else 0) L x := by
    simpa using hG.sub_const (fun i => if i = a then (turns (G x a) : ℝ) * (2 * π) else 0)
  refine hconst.congr_of_eventuallyEq ?_
  filter_upwards [hfl] with v hv
  funext i
  by_cases hi : i = a
  · subst hi; simp [wrapPi, hv]
  · simp [hi]

end GraphSlam
