import GraphSlam.Model.Heap

/-!
# Object model, repaired: `optimize` on a graph with numerically differentiated edges

`Model/Heap.lean` treats the assembling pass of `Graph.optimize` (`_calc_chi2_gradient_hessian`, graph.py:367-411) as a
read-only method: `optimizeStepObj` is `dx = spsolve(…)` + the update loop, so in `optimizeObj` a fixed vertex keeps *the
same pose object* (`Props.C15.Heap.optimizeObj_fixed_same_object`).  That is what the code does when every edge has analytic
Jacobians (`EdgeOdometry`, `EdgeLandmark`, a custom edge overriding `calc_jacobians`).  It is NOT what the code does when
an edge uses `BaseEdge.calc_jacobians` (base_edge.py:142-157, every custom edge that defines only `calc_error`): the
assembling pass then runs `_calc_jacobian` for every vertex of that edge, and `_calc_jacobian` re-binds the vertex's `pose`
to a copy (base_edge.py:191) — fixed vertices included, once per iteration, also in the iteration that only detects
convergence.  Found by the trace harness (`heap_harness.py`, worlds with `DistanceEdge`).  Contents, edges, flags, older
objects are as in `Model/Heap.lean`; only the *identity* of the pose objects of vertices touched by such edges differs.

This file states the repaired operation from the existing pieces (`numJacobianObj`, `optimizeStepObj`, `fixFirst`,
`fixedIdx`): `calcJacobiansNumObj`, `assembleNumObj`, `optimizeNumObj`.  With no numerically differentiated edge it is
`optimizeObj` (`Props.C15.Heap.optimizeNumObj_nil`).  Mathlib-free, executable.
-/

namespace GraphSlam.Model.Objects
open GraphSlam GraphSlam.Model

variable {P E : Type}

/-- a numerically differentiated edge of the graph: its position in the edge list and its `calc_error` (user code,
    assumed to only read: a function of the edge's view) -/
structure NumEdge (P E : Type) where
  ei : Nat
  uerr : EdgeView P E → Seg E

section
variable [ScalarF E]

/-- `BaseEdge.calc_jacobians` (base_edge.py:155-157):
    `[self._calc_jacobian(err, v.pose.COMPACT_DIMENSIONALITY, i) for i, v in enumerate(self.vertices)]` — the new world and
    the Jacobian arrays (one new 2-D array per vertex of the edge) -/
def calcJacobiansNumObj (L : PoseLib P E) (uerr : EdgeView P E → Seg E) (eps : E) (w : World P E) (ei : Nat) :
    Option (World P E × List ObjId) :=
  match w.edges[ei]? with
  | none => none
  | some e =>
    (List.range e.verts.length).foldlM (fun (acc : World P E × List ObjId) vi =>
      match ((e.verts[vi]?).bind (acc.1.vertices[·]?)).bind fun v => poseOf acc.1.heap v.pose with
      | none => none
      | some p => (numJacobianObj L uerr acc.1 ei vi (L.cdim p) eps).map fun r => (r.1, acc.2 ++ [r.2])) (w, [])

/-- the assembling pass as far as the world's objects are concerned: every numerically differentiated edge (in graph order)
    runs `calc_jacobians`; everything else in `_calc_chi2_gradient_hessian` reads and allocates -/
def assembleNumObj (L : PoseLib P E) (nes : List (NumEdge P E)) (eps : E) (w : World P E) : Option (World P E) :=
  nes.foldlM (fun w ne => (calcJacobiansNumObj L ne.uerr eps w ne.ei).map (·.1)) w

/-- `iters` iterations of graph.py:454-506: assemble, solve, update -/
def optimizeItersNumObj (L : PoseLib P E) (nes : List (NumEdge P E)) (eps : E) (fixed : List Nat)
    (solve : Nat → GraphView P E → Seg E) : (iters : Nat) → (i : Nat) → World P E → Option (World P E)
  | 0, _, w => some w
  | n + 1, i, w =>
    (assembleNumObj L nes eps w).bind fun w1 =>
      (optimizeStepObj L fixed (solve i w1.view) w1).bind (optimizeItersNumObj L nes eps fixed solve n (i + 1))

/-- `optimize(fix_first_pose=ffp)` performing `iters` updates on a graph whose edges `nes` are numerically differentiated.
    `extra`: one more assembling pass after the last update — the iteration that detects convergence returns after
    `_calc_chi2_gradient_hessian()` and before `spsolve` (graph.py:469-486); with `extra = true` and `iters = i` this is also
    the world at the moment of the `i`-th `spsolve` call.  (The closing `self.calc_chi2()` at graph.py:509 computes no
    Jacobians.) -/
def optimizeNumObj (L : PoseLib P E) (nes : List (NumEdge P E)) (eps : E) (solve : Nat → GraphView P E → Seg E)
    (ffp : Bool) (iters : Nat) (extra : Bool) (w : World P E) : Option (World P E) :=
  (fixFirst ffp w).bind fun w1 =>
    (optimizeItersNumObj L nes eps (fixedIdx w1) solve iters 0 w1).bind fun w2 =>
      if extra then assembleNumObj L nes eps w2 else some w2

/-- the world at every `spsolve` call of that `optimize` call -/
def optimizeNumSeen (L : PoseLib P E) (nes : List (NumEdge P E)) (eps : E) (solve : Nat → GraphView P E → Seg E)
    (ffp : Bool) (iters : Nat) (w : World P E) : List (Option (World P E)) :=
  (List.range iters).map fun i => optimizeNumObj L nes eps solve ffp i true w

end

end GraphSlam.Model.Objects
