import GraphSlam.Model.Assembly
import GraphSlam.Generated.Edges

/-!
# Layer B model: one whole iteration of `Graph.optimize` on a *typed* graph (graph.py:419-500)

`Model.Assembly` models the bookkeeping between the per-edge linearisations and the dense system; the generated layer
(`GraphSlam/Generated`) is the translation of every pose and edge formula.  This file is the glue between the two — the
part of `Graph.optimize` that was previously only exercised stage by stage:

* `Pose` / `Edge`        — a vertex estimate of one of the four pose classes; an `EdgeOdometry` / `EdgeLandmark` with its
                           measurement, offset and information matrix, referring to its vertices by *position* in the
                           vertex list (what `Graph._link_edges` resolves ids to);
* `linearise`            — what `BaseEdge.calc_chi2_gradient_hessian` reads from the edge: the generated `calc_error`,
                           `calc_chi2` and `calc_jacobians` of the edge's class at the current estimates, with the
                           vertices' gradient indices (`none` for an edge whose vertex classes do not fit its
                           measurement: the constructor rejects those, C18);
* `system`               — χ², the dense gradient `b` and Hessian `H` (`_calc_chi2_gradient_hessian`);
* `applyFixFirst`, `fixedIndices` — the head of `optimize`: flags after `fix_first_pose`, the fixed index set;
* `step`                 — one iteration: `dx = solve(H, -b)` (the sparse solver is a parameter), then
                           `v.pose += dx[g : g + c]` for every vertex that is not fixed (generated `iadd_boxplus`).

Generic in the scalar type: run at `Float` by the driver (`iter` command, compared with the real
`optimize(max_iter=1)` by tools/harness/graphiter.py), reasoned about at `ℝ` (Props/E2E).  Mathlib-free.
-/

namespace GraphSlam.Model
open GraphSlam GraphSlam.Gen

variable {E : Type} [ScalarF E]

/-- a vertex estimate (class and array) -/
inductive Pose (E : Type) where
  | r2 (p : Fin 2 → E)
  | r3 (p : Fin 3 → E)
  | se2 (p : Fin 3 → E)
  | se3 (p : Fin 7 → E)

/-- `COMPACT_DIMENSIONALITY` -/
def Pose.cdim : Pose E → Nat
  | .r2 _ => 2
  | .r3 _ => 3
  | .se2 _ => 3
  | .se3 _ => 6

/-- a slice `dx[g : g + n]` as a fixed-size vector -/
def vecN {n : Nat} (δ : Nat → E) : Fin n → E := fun i => δ i.val

def arrV {n : Nat} (v : Fin n → E) : Nat → E := fun i => if h : i < n then v ⟨i, h⟩ else Scalar.ofInt 0

def arrM {m n : Nat} (M : Fin m → Fin n → E) : Nat → Nat → E :=
  fun i j => if h : i < m ∧ j < n then M ⟨i, h.1⟩ ⟨j, h.2⟩ else Scalar.ofInt 0

/-- evaluate a vector once and keep the values (vectors are functions; without this every later read of an updated
    estimate would re-run the whole chain of updates that produced it).  `readArray (storeArray f) = f`. -/
@[noinline] def storeArray {n : Nat} (f : Fin n → E) : Array E := Array.ofFn f

def readArray {n : Nat} (a : Array E) : Fin n → E := fun i => a.getD i.val (Scalar.ofInt 0)

theorem stored_eq {n : Nat} (f : Fin n → E) : readArray (storeArray f) = f := by
  funext i
  simp [readArray, storeArray]

/-- `pose += δ` with a compact increment (graph.py:494; the generated `__iadd__` specialisation) -/
def Pose.boxplus : Pose E → (Nat → E) → Pose E
  | .r2 p, δ => let a := storeArray (PoseR2.iadd_boxplus p (vecN δ)); .r2 (readArray a)
  | .r3 p, δ => let a := storeArray (PoseR3.iadd_boxplus p (vecN δ)); .r3 (readArray a)
  | .se2 p, δ => let a := storeArray (PoseSE2.iadd_boxplus p (vecN δ)); .se2 (readArray a)
  | .se3 p, δ => let a := storeArray (PoseSE3.iadd_boxplus p (vecN δ)); .se3 (readArray a)

/-- an edge of one of the two built-in classes; `i`, `j` are positions in the vertex list -/
inductive Edge (E : Type) where
  | odo (i j : Nat) (z : Pose E) (info : Nat → Nat → E)
  | lm (i j : Nat) (z off : Pose E) (info : Nat → Nat → E)

/-- the optimiser state: `(gradient_index, compact dimension, estimate)` per vertex, in graph order -/
abbrev GState (E : Type) := List (Nat × Nat × Pose E)

/-- the record `calc_chi2_gradient_hessian` works from, for a binary edge with error `err` and Jacobians `J0`, `J1` -/
def mkLin {m c0 c1 : Nat} (g0 g1 : Nat) (err : Fin m → E) (info : Nat → Nat → E)
    (J0 : Fin m → Fin c0 → E) (J1 : Fin m → Fin c1 → E) : EdgeLin E :=
  { m := m,
    chi2 := BaseEdge.calc_chi2 err (fun a b => info a.val b.val),
    err := arrV err,
    info := info,
    verts := [(g0, c0, arrM J0), (g1, c1, arrM J1)] }

/-- error, χ² and Jacobians of an edge at the current estimates, by the classes of measurement and vertices -/
def lineariseAt (g0 g1 : Nat) (p0 p1 : Pose E) : Edge E → Option (EdgeLin E)
  | .odo _ _ z info =>
    match z, p0, p1 with
    | .r2 z, .r2 a, .r2 b => some (mkLin g0 g1 (EdgeOdometry.calc_error_R2 z a b) info
        (EdgeOdometry.calc_jacobians_R2_0 z a b) (EdgeOdometry.calc_jacobians_R2_1 z a b))
    | .r3 z, .r3 a, .r3 b => some (mkLin g0 g1 (EdgeOdometry.calc_error_R3 z a b) info
        (EdgeOdometry.calc_jacobians_R3_0 z a b) (EdgeOdometry.calc_jacobians_R3_1 z a b))
    | .se2 z, .se2 a, .se2 b => some (mkLin g0 g1 (EdgeOdometry.calc_error_SE2 z a b) info
        (EdgeOdometry.calc_jacobians_SE2_0 z a b) (EdgeOdometry.calc_jacobians_SE2_1 z a b))
    | .se3 z, .se3 a, .se3 b => some (mkLin g0 g1 (EdgeOdometry.calc_error_SE3 z a b) info
        (EdgeOdometry.calc_jacobians_SE3_0 z a b) (EdgeOdometry.calc_jacobians_SE3_1 z a b))
    | _, _, _ => none
  | .lm _ _ z off info =>
    match z, off, p0, p1 with
    | .r2 z, .r2 o, .r2 a, .r2 b => some (mkLin g0 g1 (EdgeLandmark.calc_error_R2 z o a b) info
        (EdgeLandmark.calc_jacobians_R2_0 z o a b) (EdgeLandmark.calc_jacobians_R2_1 z o a b))
    | .r3 z, .r3 o, .r3 a, .r3 b => some (mkLin g0 g1 (EdgeLandmark.calc_error_R3 z o a b) info
        (EdgeLandmark.calc_jacobians_R3_0 z o a b) (EdgeLandmark.calc_jacobians_R3_1 z o a b))
    | .r2 z, .se2 o, .se2 a, .r2 b => some (mkLin g0 g1 (EdgeLandmark.calc_error_SE2 z o a b) info
        (EdgeLandmark.calc_jacobians_SE2_0 z o a b) (EdgeLandmark.calc_jacobians_SE2_1 z o a b))
    | .r3 z, .se3 o, .se3 a, .r3 b => some (mkLin g0 g1 (EdgeLandmark.calc_error_SE3 z o a b) info
        (EdgeLandmark.calc_jacobians_SE3_0 z o a b) (EdgeLandmark.calc_jacobians_SE3_1 z o a b))
    | _, _, _, _ => none

def Edge.ends : Edge E → Nat × Nat
  | .odo i j _ _ => (i, j)
  | .lm i j _ _ _ => (i, j)

def Edge.info : Edge E → Nat → Nat → E
  | .odo _ _ _ info => info
  | .lm _ _ _ _ info => info

def linearise (s : GState E) (e : Edge E) : Option (EdgeLin E) :=
  match s[e.ends.1]?, s[e.ends.2]? with
  | some (g0, _, p0), some (g1, _, p1) => lineariseAt g0 g1 p0 p1 e
  | _, _ => none

/-- `Graph._initialize`, first half: gradient indices are the running sums of the compact dimensions, in list order -/
def initState : Nat → List (Pose E) → GState E
  | _, [] => []
  | g, p :: ps => (g, p.cdim, p) :: initState (g + p.cdim) ps

/-- `id_index_dict = {v.id: i for i, v in enumerate(vertices)}` then `id_index_dict[v_id]`: the *last* vertex carrying the id -/
def indexOfId (ids : List Int) (x : Int) : Option Nat :=
  (ids.zipIdx.foldl (fun acc (p : Int × Nat) => if p.1 = x then some p.2 else acc) none)

def allSome {α : Type} : List (Option α) → Option (List α)
  | [] => some []
  | none :: _ => none
  | some a :: rest => (allSome rest).map (a :: ·)

def layoutOf (s : GState E) : List (Nat × Nat) := s.map fun v => (v.1, v.2.1)

/-- `_calc_chi2_gradient_hessian`: χ², dense gradient, dense Hessian -/
def system (fixed : List Nat) (es : List (Edge E)) (s : GState E) : Option (E × (Nat → E) × (Nat → Nat → E)) :=
  (allSome (es.map (linearise s))).map fun lins =>
    let acc := accumulate lins
    (acc.chi2, fillGradient fixed acc.g, fillHessian fixed (layoutOf s) acc.h)

/-- the head of `optimize`: `fix_first_pose=True` fixes exactly the first listed vertex, `False` nothing
    (`flags` are the vertices' `fixed` attributes in list order) -/
def applyFixFirst (fixFirst : Bool) (flags : List Bool) : List Bool :=
  if fixFirst then (match flags with | [] => [] | _ :: rest => true :: rest) else flags

/-- the set of fixed gradient indices computed at graph.py:433 -/
def fixedIndices (flags : List Bool) (gidx : List Nat) : List Nat :=
  ((flags.zip gidx).filter (·.1)).map (·.2)

/-- one iteration (graph.py:466-494): assemble, `dx = solve(H, -b)`, update the free vertices -/
def step (solve : (Nat → Nat → E) → (Nat → E) → (Nat → E)) (fixed : List Nat) (es : List (Edge E)) (s : GState E) :
    Option (GState E) :=
  (system fixed es s).map fun r => applyDx Pose.boxplus fixed s (solve r.2.2 (fun i => - r.2.1 i))

end GraphSlam.Model
