import GraphSlam.Core.Scalar

/-!
# Layer B model: assembling the normal equations (base_edge.py:115-140, graph.py:237-285, 367-412)

Stage by stage, mirroring the code:

* `contribs`   — `BaseEdge.calc_chi2_gradient_hessian`: per edge, `(g_k, (eᵀΩ)J_k)` for every vertex `k` of the edge and
  `((g_i, g_j), J_iᵀΩJ_j)` for every position pair `i ≤ j`;
* `update` / `accumulate` — `_Chi2GradientHessian.update` folded over the edges with `reduce`: dictionaries of blocks,
  `+=` on a missing key adopts the incoming array (`DefaultArray.__iadd__`), Hessian contributions whose key has
  `idx1 > idx2` are transposed and stored under `(idx2, idx1)`;
* `fillGradient` / `fillHessian` — the dense gradient (`+=` of each dictionary entry unless its vertex is fixed) and the
  Hessian (each dictionary block **assigned**, together with its transpose when off-diagonal; blocks touching a fixed
  vertex are dropped, diagonal ones replaced by `np.eye`; then — since the repair of C06 — the identity block of
  *every* fixed vertex);
* `applyDx` — the update loop: fixed vertices are skipped, the others get `pose ⊞ dx[g : g + c]`.

Arrays are functions on `Nat` with explicit sizes (entries outside the size are never read).  Generic in the scalar
type: executed at `Float` by the driver, reasoned about at `ℝ`.  Mathlib-free.
-/

namespace GraphSlam.Model

variable {E : Type} [Scalar E]

/-- `Σ_{k<n} f k`, left to right from `0` -/
def sumTo (n : Nat) (f : Nat → E) : E := (List.range n).foldl (fun acc k => acc + f k) (Scalar.ofInt 0)

/-- a 1-D array -/
structure Seg (E : Type) where
  len : Nat
  get : Nat → E

/-- a 2-D array -/
structure Block (E : Type) where
  r : Nat
  c : Nat
  get : Nat → Nat → E

def Block.transpose (b : Block E) : Block E := ⟨b.c, b.r, fun i j => b.get j i⟩
/-- `a += b` on arrays of equal shape (the shape is the left operand's) -/
def Block.add (a b : Block E) : Block E := ⟨a.r, a.c, fun i j => a.get i j + b.get i j⟩
def Seg.add (a b : Seg E) : Seg E := ⟨a.len, fun i => a.get i + b.get i⟩

/-- what `calc_chi2_gradient_hessian` reads from one edge at the current state -/
structure EdgeLin (E : Type) where
  m : Nat
  chi2 : E
  err : Nat → E
  info : Nat → Nat → E
  /-- per vertex of the edge, in the edge's own order: gradient index, compact dimension, Jacobian (`m × dim`) -/
  verts : List (Nat × Nat × (Nat → Nat → E))

structure Contribs (E : Type) where
  chi2 : E
  grads : List (Nat × Seg E)
  hess : List ((Nat × Nat) × Block E)

/-- `np.dot(np.dot(np.transpose(err), information), jacobian)` -/
def gradContrib (m : Nat) (err : Nat → E) (info : Nat → Nat → E) (dim : Nat) (J : Nat → Nat → E) : Seg E :=
  ⟨dim, fun t => sumTo m fun b => (sumTo m fun a => err a * info a b) * J b t⟩

/-- `np.dot(np.dot(np.transpose(jacobians[i]), information), jacobians[j])` -/
def hessContrib (m : Nat) (info : Nat → Nat → E) (di : Nat) (Ji : Nat → Nat → E) (dj : Nat) (Jj : Nat → Nat → E) : Block E :=
  ⟨di, dj, fun s t => sumTo m fun b => (sumTo m fun a => Ji a s * info a b) * Jj b t⟩

/-- all pairs `(i, j)`, `i ≤ j`, of a list (the double comprehension `for i in range(n) for j in range(i, n)`) -/
def pairsLE {α : Type} : List α → List (α × α)
  | [] => []
  | x :: xs => ((x :: xs).map fun y => (x, y)) ++ pairsLE xs

def contribs (e : EdgeLin E) : Contribs E :=
  { chi2 := e.chi2,
    grads := e.verts.map fun (g, d, J) => (g, gradContrib e.m e.err e.info d J),
    hess := (pairsLE e.verts).map fun ((gi, di, Ji), (gj, dj, Jj)) => ((gi, gj), hessContrib e.m e.info di Ji dj Jj) }

/-- association list in insertion order (a Python dict) -/
abbrev Dict (κ : Type) (β : Type) := List (κ × β)

/-- `d[k] += v` on a `defaultdict(DefaultArray)`: a missing key adopts `v` -/
def Dict.addAt {κ β : Type} [DecidableEq κ] (add : β → β → β) : Dict κ β → κ → β → Dict κ β
  | [], k, v => [(k, v)]
  | (k', w) :: rest, k, v => if k' = k then (k', add w v) :: rest else (k', w) :: Dict.addAt add rest k v

def Dict.get? {κ β : Type} [DecidableEq κ] (d : Dict κ β) (k : κ) : Option β := (d.find? (fun p => p.1 = k)).map (·.2)

structure Acc (E : Type) where
  chi2 : E
  g : Dict Nat (Seg E)
  h : Dict (Nat × Nat) (Block E)

/-- `_Chi2GradientHessian.update` -/
def update (acc : Acc E) (inc : Contribs E) : Acc E :=
  { chi2 := acc.chi2 + inc.chi2,
    g := inc.grads.foldl (fun d (p : Nat × Seg E) => Dict.addAt Seg.add d p.1 p.2) acc.g,
    h := inc.hess.foldl (fun d (p : (Nat × Nat) × Block E) =>
          if p.1.1 ≤ p.1.2 then Dict.addAt Block.add d (p.1.1, p.1.2) p.2
          else Dict.addAt Block.add d (p.1.2, p.1.1) p.2.transpose) acc.h }

/-- `reduce(update, (e.calc_chi2_gradient_hessian() for e in edges), _Chi2GradientHessian())` -/
def accumulate (es : List (EdgeLin E)) : Acc E :=
  es.foldl (fun acc e => update acc (contribs e)) ⟨Scalar.ofInt 0, [], []⟩

/-- `self._gradient[idx : idx + len(contrib)] += contrib` for every entry whose index is not fixed -/
def fillGradient (fixed : List Nat) (g : Dict Nat (Seg E)) : Nat → E :=
  g.foldl (fun vec (p : Nat × Seg E) =>
      if p.1 ∈ fixed then vec
      else fun i => if p.1 ≤ i ∧ i < p.1 + p.2.len then vec i + p.2.get (i - p.1) else vec i)
    (fun _ => Scalar.ofInt 0)

/-- `H[r0 : r0 + B.r, c0 : c0 + B.c] = B` -/
def setBlock (H : Nat → Nat → E) (r0 c0 : Nat) (B : Block E) : Nat → Nat → E :=
  fun i j => if r0 ≤ i ∧ i < r0 + B.r ∧ c0 ≤ j ∧ j < c0 + B.c then B.get (i - r0) (j - c0) else H i j

/-- `np.eye(r, c)` -/
def eyeBlock (r c : Nat) : Block E := ⟨r, c, fun i j => if i = j then Scalar.ofInt 1 else Scalar.ofInt 0⟩

/-- the loop over `chi2_gradient_hessian.hessian.items()` (graph.py:386-403) -/
def fillHessianDict (fixed : List Nat) (h : Dict (Nat × Nat) (Block E)) : Nat → Nat → E :=
  h.foldl (fun H (p : (Nat × Nat) × Block E) =>
      let r0 := p.1.1
      let c0 := p.1.2
      if r0 ∈ fixed ∨ c0 ∈ fixed then
        (if r0 = c0 then setBlock H r0 c0 (eyeBlock p.2.r p.2.c) else H)
      else
        let H1 := setBlock H r0 c0 p.2
        if r0 ≠ c0 then setBlock H1 c0 r0 p.2.transpose else H1)
    (fun _ _ => Scalar.ofInt 0)

/-- … followed by the identity block of every fixed vertex (graph.py, loop added by the C06 repair);
    `verts` lists `(gradient_index, compact dimension)` of all vertices in graph order -/
def fillHessian (fixed : List Nat) (verts : List (Nat × Nat)) (h : Dict (Nat × Nat) (Block E)) : Nat → Nat → E :=
  verts.foldl (fun H (v : Nat × Nat) => if v.1 ∈ fixed then setBlock H v.1 v.1 (eyeBlock v.2 v.2) else H)
    (fillHessianDict fixed h)

/-- the update loop (graph.py:484-494): `pose` is abstract, `boxplus` is the vertex type's box-plus -/
def applyDx {P : Type} (boxplus : P → (Nat → E) → P) (fixed : List Nat) (verts : List (Nat × Nat × P)) (dx : Nat → E) :
    List (Nat × Nat × P) :=
  verts.map fun (g, d, p) => if g ∈ fixed then (g, d, p) else (g, d, boxplus p (fun t => dx (g + t)))

end GraphSlam.Model
