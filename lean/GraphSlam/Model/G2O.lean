import GraphSlam.Model.G2O.Chars
import GraphSlam.Model.G2O.Objects
import GraphSlam.Model.G2O.Tags
import GraphSlam.Model.G2O.Triu
import GraphSlam.Model.G2O.Print
import GraphSlam.Model.G2O.Parse
import GraphSlam.Model.G2O.Custom

/-!
# Layer B model of the `.g2o` reader and writer (properties C13, C14)

Three executable levels, all Mathlib-free:
* characters — `G2O/Chars.lean` (`str.split()`, `strip`, `rstrip`, `startswith`, `" ".join`, `readlines`);
* tokens — `numbersOf`, `floats`, `pyInt`, `fmtLine`, `fmtEdgeLine` (numbers are atoms, converted only through `Env`);
* objects — `G2O/Objects.lean`, writer `G2O/Print.lean` (`Graph.toG2O`), reader `G2O/Parse.lean` (`Graph.fromG2O`,
  the five `load.py` wrappers), custom edge family `G2O/Custom.lean`.
-/
