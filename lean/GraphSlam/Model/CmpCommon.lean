/-!
# Shared vocabulary of the `equals` (C17) and construction/validity (C18) models

Mathlib-free.  `PyErr` is the small enum of Python exception classes the modelled code can raise; `PoseKind` names the
four concrete pose classes (`PoseR2`, `PoseR3`, `PoseSE2`, `PoseSE3`), which are unrelated direct subclasses of
`BasePose`, so `type(a) is type(b)` and `isinstance(a, type(b))` are both equality of kinds.
-/

namespace GraphSlam.Model.Cmp

/-- exception classes of the modelled code paths -/
inductive PyErr where
  | attributeError
  | valueError
  | typeError
  | keyError
  | assertionError
  deriving DecidableEq, Repr

def PyErr.name : PyErr → String
  | .attributeError => "AttributeError"
  | .valueError => "ValueError"
  | .typeError => "TypeError"
  | .keyError => "KeyError"
  | .assertionError => "AssertionError"

/-- the four pose classes of `graphslam/pose/` -/
inductive PoseKind where
  | r2 | r3 | se2 | se3
  deriving DecidableEq, Repr

/-- length of `to_array()` : r2.py / r3.py / se2.py / se3.py `__new__` -/
def PoseKind.dim : PoseKind → Nat
  | .r2 => 2 | .r3 => 3 | .se2 => 3 | .se3 => 7

/-- `COMPACT_DIMENSIONALITY` (r2.py:23, r3.py:23, se2.py:30, se3.py:26) -/
def PoseKind.compactDim : PoseKind → Nat
  | .r2 => 2 | .r3 => 3 | .se2 => 3 | .se3 => 6

def PoseKind.name : PoseKind → String
  | .r2 => "r2" | .r3 => "r3" | .se2 => "se2" | .se3 => "se3"

def PoseKind.ofName? : String → Option PoseKind
  | "r2" => some .r2 | "r3" => some .r3 | "se2" => some .se2 | "se3" => some .se3 | _ => none

/-- class of an edge object: the two library classes, or the `k`-th user-defined direct subclass of `BaseEdge` -/
inductive EdgeClass where
  | odometry
  | landmark
  | custom (k : Nat)
  deriving DecidableEq, Repr

end GraphSlam.Model.Cmp
