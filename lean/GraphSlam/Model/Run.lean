import GraphSlam.Model.GraphIter
import GraphSlam.Model.Ctl

/-!
# Layer B model: a whole call of `Graph.optimize` on a typed graph (graph.py:405-510)

The composition of the two tied pieces: `Model.Ctl` (the loop, stopping rule and report as a function of the χ² sequence)
and `Model.GraphIter` (what one iteration does to the state).  The sparse solver stays a parameter: `dxs i` is the
increment applied in iteration `i` (in the theorems: `solve (H_i) (-b_i)`; in the driver: what the real `spsolve`
returned in iteration `i`, recorded by the harness).

* `stateAt i`   — the vertex state at the start of iteration `i` (after `i` updates);
* `chi2Seq i`   — the χ² `_calc_chi2_gradient_hessian` / `calc_chi2` computes at that state;
* `optimizeRun` — flags after `fix_first_pose`, the report (`optimizeCtl` of that χ² sequence), and the returned state:
                  the state after `num_iterations` updates.

Generic in the scalar type; Mathlib-free.  Tied to the real `optimize(tol, max_iter, fix_first_pose)` by
tools/harness/fullrun.py (driver command `run`).
-/

namespace GraphSlam.Model
open GraphSlam

variable {E : Type} [ScalarF E]

/-- one iteration that applies a given increment (the update loop of graph.py:484-494 after `system` was assembled) -/
def stepWith (dx : Nat → E) (fixed : List Nat) (es : List (Edge E)) (s : GState E) : Option (GState E) :=
  (system fixed es s).map fun _ => applyDx Pose.boxplus fixed s dx

/-- the state at the start of iteration `i` when iteration `j` maps the state by `stepFn j` -/
def iterStates (stepFn : Nat → GState E → Option (GState E)) (s : GState E) : Nat → Option (GState E)
  | 0 => some s
  | i + 1 => (iterStates stepFn s i).bind (stepFn i)

/-- the state at the start of iteration `i`, iteration `j` having applied `dxs j` -/
def stateAt (dxs : Nat → Nat → E) (fixed : List Nat) (es : List (Edge E)) (s : GState E) : Nat → Option (GState E) :=
  iterStates (fun i => stepWith (dxs i) fixed es) s

/-- `calc_chi2()` of a state -/
def chi2At (fixed : List Nat) (es : List (Edge E)) (s : GState E) : Option E := (system fixed es s).map (·.1)

/-- the χ² sequence the control loop sees (`0` stands for "ill-typed graph", which a constructed `Graph` never is) -/
def chi2SeqOf (stepFn : Nat → GState E → Option (GState E)) (fixed : List Nat) (es : List (Edge E)) (s : GState E)
    (i : Nat) : E :=
  ((iterStates stepFn s i).bind (chi2At fixed es)).getD (Scalar.ofInt 0)

def chi2Seq (dxs : Nat → Nat → E) (fixed : List Nat) (es : List (Edge E)) (s : GState E) (i : Nat) : E :=
  chi2SeqOf (fun i => stepWith (dxs i) fixed es) fixed es s i

/-- the whole call for an arbitrary per-iteration state map: `(report, returned state, flags after fix_first_pose)` -/
def optimizeRunOf (tol eps : E) (maxIter : Nat) (ffp : Bool) (flags : List Bool)
    (stepFn : List Nat → Nat → GState E → Option (GState E))
    (es : List (Edge E)) (ps : List (Pose E)) : Except CtlErr (Report E × Option (GState E) × List Bool) :=
  let s0 := initState 0 ps
  let flags' := applyFixFirst ffp flags
  let fixed := fixedIndices flags' (s0.map (·.1))
  match optimizeCtl tol eps maxIter (chi2SeqOf (stepFn fixed) fixed es s0) with
  | .error e => .error e
  | .ok r => .ok (r, iterStates (stepFn fixed) s0 (r.numIterations.getD 0), flags')

/-- … with recorded increments (what the driver runs) -/
def optimizeRun (tol eps : E) (maxIter : Nat) (ffp : Bool) (flags : List Bool) (dxs : Nat → Nat → E)
    (es : List (Edge E)) (ps : List (Pose E)) : Except CtlErr (Report E × Option (GState E) × List Bool) :=
  optimizeRunOf tol eps maxIter ffp flags (fun fixed i => stepWith (dxs i) fixed es) es ps

/-- … with a solver: iteration `i` applies `solve H_i (-b_i)` -/
def optimizeSolve (tol eps : E) (maxIter : Nat) (ffp : Bool) (flags : List Bool)
    (solve : (Nat → Nat → E) → (Nat → E) → (Nat → E))
    (es : List (Edge E)) (ps : List (Pose E)) : Except CtlErr (Report E × Option (GState E) × List Bool) :=
  optimizeRunOf tol eps maxIter ffp flags (fun fixed _ => step solve fixed es) es ps

end GraphSlam.Model
