import GraphSlam.Model.CmpCommon

/-!
# Layer B model: graph construction and edge validity (C18)

Mirrors

* `Graph._initialize`        graphslam/graph.py:337-354  (gradient indices, id → index dict, binding, the assert)
* `BaseEdge._is_valid`       graphslam/edge/base_edge.py:51-68
* `EdgeOdometry.is_valid`    graphslam/edge/edge_odometry.py:51-72
* `EdgeLandmark.is_valid`    graphslam/edge/edge_landmark.py:65-87

over descriptors: a vertex is (id, pose class); an edge is (class, vertex ids, class of the estimate / offset object,
`information.shape`).  Mathlib-free.  Not modelled: `python -O` (strips the assert), non-`int` ids, an `information`
attribute that is not an `ndarray`.
-/

namespace GraphSlam.Model.Validity
open GraphSlam.Model.Cmp

/-- a vertex as the constructor sees it -/
structure VertexDesc where
  id : Int
  kind : PoseKind
  deriving DecidableEq, Repr

/-- class of the object stored in `estimate` / `offset`, as far as `isinstance(·, <pose class>)` can tell -/
inductive ObjKind where
  | pose (k : PoseKind)
  | ndarray
  | none
  | scalar
  deriving DecidableEq, Repr

/-- `isinstance(obj, T)` for a concrete pose class `T`: the four pose classes are unrelated, a plain `ndarray`, `None`
    and a float are not poses -/
def ObjKind.isInstance (o : ObjKind) (t : PoseKind) : Bool :=
  match o with
  | .pose k => decide (k = t)
  | _ => false

structure EdgeDesc where
  cls : EdgeClass
  vertexIds : List Int
  estimate : ObjKind
  /-- landmark edges only -/
  offset : ObjKind
  /-- `information.shape` -/
  infoShape : List Nat
  deriving DecidableEq, Repr

/-! ## binding (graph.py:349-351) -/

/-- `{v.id: i for i, v in enumerate(vertices)}[x]`: a later vertex with the same id overwrites an earlier one, so the
    lookup yields the index of the *last* vertex with that id; `none` when the key is absent (`KeyError`) -/
def lastIdx : List Int → Int → Option Nat
  | [], _ => none
  | y :: ys, x =>
    match lastIdx ys x with
    | some j => some (j + 1)
    | none => if y = x then some 0 else none

/-- `[id_index_dict[v_id] for v_id in e.vertex_ids]`: indices in order, `KeyError` at the first unknown id -/
def bind (ids : List Int) : List Int → Except PyErr (List Nat)
  | [] => .ok []
  | x :: xs =>
    match lastIdx ids x with
    | none => .error .keyError
    | some j =>
      match bind ids xs with
      | .error e => .error e
      | .ok js => .ok (j :: js)

/-- `[self._vertices[i] for i in ...]` -/
def pick {α : Type} (vs : List α) : List Nat → List α
  | [] => []
  | j :: js =>
    match vs[j]? with
    | some v => v :: pick vs js
    | none => pick vs js

/-- `e.vertices` after the binding loop -/
def bindVertices (vs : List VertexDesc) (vertexIds : List Int) : Except PyErr (List VertexDesc) :=
  match bind (vs.map (·.id)) vertexIds with
  | .error e => .error e
  | .ok js => .ok (pick vs js)

/-- the binding loop over all edges: first `KeyError` in edge order, then in id order -/
def bindAll (vs : List VertexDesc) : List EdgeDesc → Except PyErr (List (List VertexDesc))
  | [] => .ok []
  | e :: es =>
    match bindVertices vs e.vertexIds with
    | .error err => .error err
    | .ok b =>
      match bindAll vs es with
      | .error err => .error err
      | .ok bs => .ok (b :: bs)

/-! ## validity -/

/-- `for vertex, v_id in zip(self.vertices, self.vertex_ids): if vertex.id != v_id: return False` -/
def idsMatch : List VertexDesc → List Int → Bool
  | v :: vs, x :: xs => if v.id ≠ x then false else idsMatch vs xs
  | _, _ => true

/-- `BaseEdge._is_valid`; `vertices = none` is the unbound state (`self.vertices is None`) -/
def isValidBase (e : EdgeDesc) (vertices : Option (List VertexDesc)) : Bool :=
  match vertices with
  | none => false
  | some vs => if vs.length ≠ e.vertexIds.length then false else idsMatch vs e.vertexIds

/-- `EdgeOdometry.is_valid` -/
def isValidOdometry (e : EdgeDesc) (vertices : Option (List VertexDesc)) : Bool :=
  -- if not self._is_valid() or len(self.vertices) != 2: return False
  if !(isValidBase e vertices) then false
  else match vertices with
    | some [v0, v1] =>
      -- pose_type = type(self.vertices[0].pose)
      -- if not isinstance(self.vertices[1].pose, pose_type) or not isinstance(self.estimate, pose_type): return False
      if !((ObjKind.pose v1.kind).isInstance v0.kind) || !(e.estimate.isInstance v0.kind) then false
      -- return self.information.shape == (n, n)
      else decide (e.infoShape = [v0.kind.compactDim, v0.kind.compactDim])
    | _ => false

/-- `EdgeLandmark.is_valid` -/
def isValidLandmark (e : EdgeDesc) (vertices : Option (List VertexDesc)) : Bool :=
  if !(isValidBase e vertices) then false
  else match vertices with
    | some [v0, v1] =>
      -- if not isinstance(self.offset, pose_type) or not isinstance(self.estimate, point_type): return False
      if !(e.offset.isInstance v0.kind) || !(e.estimate.isInstance v1.kind) then false
      -- n = point_type.COMPACT_DIMENSIONALITY; return self.information.shape == (n, n)
      else decide (e.infoShape = [v1.kind.compactDim, v1.kind.compactDim])
    | _ => false

/-- user-defined edge classes decide for themselves: a parameter of the model -/
abbrev CustomValid := Nat → EdgeDesc → Option (List VertexDesc) → Bool

/-- `e.is_valid()` by class -/
def isValid (custom : CustomValid) (e : EdgeDesc) (vertices : Option (List VertexDesc)) : Bool :=
  match e.cls with
  | .odometry => isValidOdometry e vertices
  | .landmark => isValidLandmark e vertices
  | .custom k => custom k e vertices

/-- `all(e.is_valid() for e in self._edges)` over the bound edges -/
def allValid (custom : CustomValid) : List EdgeDesc → List (List VertexDesc) → Bool
  | e :: es, b :: bs => if isValid custom e (some b) then allValid custom es bs else false
  | _, _ => true

/-! ## gradient indices (graph.py:339-346) -/

/-- the loop `v.gradient_index = gradient_index; gradient_index += v.pose.COMPACT_DIMENSIONALITY` started at `start`:
    (indices in list order, final counter) -/
def gradLoop : List VertexDesc → Nat → List Nat × Nat
  | [], acc => ([], acc)
  | v :: vs, acc => let r := gradLoop vs (acc + v.kind.compactDim); (acc :: r.1, r.2)

structure BoundGraph where
  /-- `v.gradient_index` in vertex-list order -/
  gradientIndex : List Nat
  /-- `_len_gradient` -/
  lenGradient : Nat
  /-- `e.vertices` per edge, in edge order -/
  edgeVertices : List (List VertexDesc)
  deriving DecidableEq, Repr

/-- `Graph.__init__` / `_initialize` -/
def construct (custom : CustomValid) (vs : List VertexDesc) (es : List EdgeDesc) : Except PyErr BoundGraph :=
  let g := gradLoop vs 0
  match bindAll vs es with
  | .error err => .error err
  | .ok bound =>
    -- assert all(e.is_valid() for e in self._edges)
    if allValid custom es bound then .ok { gradientIndex := g.1, lenGradient := g.2, edgeVertices := bound }
    else .error .assertionError

/-! ## the custom edge classes the correspondence harness defines (tools/harness/validity.py) -/

/-- 0: `return True`; 1: `return False`; 2: `return self._is_valid()`;
    3: unary prior — `self._is_valid() and len(self.vertices) == 1 and self.information.shape == (c, c)` -/
def harnessCustom : CustomValid := fun k e vertices =>
  match k with
  | 0 => true
  | 1 => false
  | 2 => isValidBase e vertices
  | 3 => isValidBase e vertices &&
      (match vertices with
       | some [v] => decide (e.infoShape = [v.kind.compactDim, v.kind.compactDim])
       | _ => false)
  | _ => false

end GraphSlam.Model.Validity
