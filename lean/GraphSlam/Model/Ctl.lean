import GraphSlam.Core.Scalar

/-!
# Layer B model: the control logic and report of `Graph.optimize` (graph.py:405-510)

The loop looks at the state only through χ²: `c i` is the χ² that `_calc_chi2_gradient_hessian` computes at the start
of iteration `i` (`i < maxIter`), and `c maxIter` the value of the final `calc_chi2()`.  Everything else in the loop
body (solve, update) is bookkeeping-free.  The model mirrors the code line by line, including

* `chi2_prev = -1.0` before the loop (never read: the test is guarded by `i > 0`),
* χ² of iteration `i-1` being recorded when iteration `i` starts (`iteration_results[-2]`),
* the early `return` that leaves the last appended `IterationResult` unfilled,
* the final `converged = chi2 <= chi2_prev and rel_diff < tol`,
* `max_iter = 0`: `iteration_results[-1]` raises `IndexError`.

Comparisons are the scalar type's (`Float`: NaN compares false, as in Python).  Mathlib-free.
-/

namespace GraphSlam.Model

/-- `OptimizationResult.IterationResult` (timing fields are represented by `complete` = "solve_duration_s is set") -/
structure IterResult (K : Type) where
  chi2 : Option K := none
  relDiff : Option K := none
  complete : Bool := false

/-- `OptimizationResult` without timing -/
structure Report (K : Type) where
  converged : Bool := false
  numIterations : Option Nat := none
  initialChi2 : Option K := none
  finalChi2 : Option K := none
  iters : List (IterResult K) := []

inductive CtlErr where
  | indexError
  deriving Repr, DecidableEq

section
variable {K : Type} [ScalarF K]

/-- Python `a <= b` / `a < b` through the interface's `ge` / `gt` -/
def le (a b : K) : Bool := ScalarF.ge b a
def lt (a b : K) : Bool := ScalarF.gt b a

/-- `rel_diff = (chi2_prev - chi2) / (chi2_prev + eps)` -/
def relDiff (eps prev cur : K) : K := ScalarF.div (prev - cur) (prev + eps)

/-- the documented stopping test -/
def stopTest (tol eps prev cur : K) : Bool := le cur prev && lt (relDiff eps prev cur) tol

/-- set `iteration_results[-2].chi2 / .rel_diff` -/
def setSecondLast (its : List (IterResult K)) (chi2 negRel : K) : List (IterResult K) :=
  match its.reverse with
  | last :: prev :: rest => (({ prev with chi2 := some chi2, relDiff := some negRel } :: rest).reverse) ++ [last]
  | _ => its

def setLast (its : List (IterResult K)) (f : IterResult K → IterResult K) : List (IterResult K) :=
  match its.reverse with
  | last :: rest => (f last :: rest).reverse
  | [] => its

/-- iterations `i, i+1, …, i+n-1` of the `for` loop; returns `Sum.inl` report on early return, else the loop state -/
def ctlLoop (tol eps : K) (c : Nat → K) : (n : Nat) → (i : Nat) → (prev : K) → Report K → Report K ⊕ (K × Report K)
  | 0, _, prev, ret => Sum.inr (prev, ret)
  | n + 1, i, prev, ret =>
    let ret := { ret with iters := ret.iters ++ [IterResult.mk none none false] }
    let chi2 := c i
    if i > 0 then
      let rel := relDiff eps prev chi2
      let ret := { ret with iters := setSecondLast ret.iters chi2 (-rel) }
      if stopTest tol eps prev chi2 then
        Sum.inl { ret with converged := true, numIterations := some i, finalChi2 := some chi2 }
      else
        let ret := { ret with iters := setLast ret.iters (fun r => { r with complete := true }) }
        ctlLoop tol eps c n (i + 1) chi2 ret
    else
      let ret := { ret with initialChi2 := some chi2 }
      let ret := { ret with iters := setLast ret.iters (fun r => { r with complete := true }) }
      ctlLoop tol eps c n (i + 1) chi2 ret

/-- `Graph.optimize`'s report as a function of the χ² sequence -/
def optimizeCtl (tol eps : K) (maxIter : Nat) (c : Nat → K) : Except CtlErr (Report K) :=
  match ctlLoop tol eps c maxIter 0 (Scalar.ofInt (-1)) (Report.mk false none none none []) with
  | Sum.inl r => .ok r
  | Sum.inr (prev, ret) =>
    if ret.iters.isEmpty then .error .indexError else
    let chi2 := c maxIter
    let rel := relDiff eps prev chi2
    let ret := { ret with iters := setLast ret.iters (fun r => { r with chi2 := some chi2, relDiff := some (-rel) }) }
    .ok { ret with converged := stopTest tol eps prev chi2, numIterations := some maxIter, finalChi2 := some chi2 }

/-- how many times the body ran to completion (solve + update), i.e. how many χ² values beyond `c 0 … ` the run consumed:
    the index of the χ² the report calls final -/
def stopIndex (tol eps : K) (maxIter : Nat) (c : Nat → K) : Nat :=
  match optimizeCtl tol eps maxIter c with
  | .ok r => r.numIterations.getD 0
  | .error _ => 0

end

end GraphSlam.Model
