import GraphSlam.Core.Scalar

/-!
# Layer B model: `Graph.calc_chi2` (graph.py:355-365)

`self._chi2 = sum((e.calc_chi2() for e in self._edges))` — Python's `sum` starts from the integer `0` and adds the
edge values left to right.  Mathlib-free, executable at `Float` (driver command `sum`).
-/

namespace GraphSlam.Model

/-- `sum(xs)` -/
def pySum {E : Type} [Scalar E] (xs : List E) : E := xs.foldl (· + ·) (Scalar.ofInt 0)

/-- graph χ² from the per-edge χ² values -/
def graphChi2 {E : Type} [Scalar E] (edgeChi2 : List E) : E := pySum edgeChi2

end GraphSlam.Model
