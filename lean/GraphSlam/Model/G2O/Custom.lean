import GraphSlam.Model.G2O.Parse

/-!
# A concrete family of custom edge types (the shape of `tests/edge_types.py` in the repository)

`from_g2o` of a member: `if line.startswith(TAG + " ")`: split the rest, `float()` all tokens after the first `nIds`,
`int()` the first `nIds`, `estimate = arr[:estDim]` (a plain slice: no error when short),
`information = upper_triangular_matrix_to_full_matrix(arr[estDim:], infoDim)`.  A type without `from_g2o` inherits
`BaseEdge.from_g2o`, which returns `None`.  The theorems treat custom types abstractly (`CustomType`); this family is what
the harness registers and the driver runs.
-/

namespace GraphSlam.Model.G2O

variable {A : Type}

structure CustomSpec where
  tag : Str
  nIds : Nat
  estDim : Nat
  infoDim : Nat
  hasFrom : Bool
  cls : Nat

def CustomSpec.fromG2O (env : Env A) (s : CustomSpec) (line : Str) : Except PyErr (Option (Edge A)) :=
  if s.hasFrom && startsWith (withSp s.tag) line then
    let numbers := numbersOf s.tag line
    match floats env (numbers.drop s.nIds) with
    | .error e => .error e
    | .ok arr =>
      match mapE (pyInt env numbers) (List.range s.nIds) with
      | .error e => .error e
      | .ok ids =>
        match expandTriu env.zero s.infoDim (arr.drop s.estDim) with
        | .error e => .error e
        | .ok info => .ok (some ⟨ids, info, .custom s.cls (arr.take s.estDim) none⟩)
  else .ok none

def CustomSpec.toType (env : Env A) (s : CustomSpec) : CustomType A := ⟨fun line _ => s.fromG2O env line⟩

end GraphSlam.Model.G2O
