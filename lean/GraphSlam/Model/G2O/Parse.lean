import GraphSlam.Model.G2O.Triu
import GraphSlam.Model.G2O.Tags

/-!
# .g2o model: the reader (`Graph.from_g2o`, graph.py:554-666, and the `from_g2o` class methods it calls)

Per line (`for line in f.readlines(): if line.strip(): ...`) the code tries, in this order and stopping at the first
that returns an object: `Vertex.from_g2o`, every registered custom edge type, `EdgeOdometry.from_g2o`,
`EdgeLandmark.from_g2o`, the two parameter types; otherwise it logs `Line not supported -- '<line.rstrip()>'`.
Each `from_g2o` tests `line.startswith(TAG + " ")` on the **raw** line, splits `line[len(TAG + " "):]`, converts
`float(...)` for all value tokens first (first bad token: `ValueError`), then builds the pose / reads the ids (short
lines: `IndexError`; non-integer ids: `ValueError`) in the order of the source.  Finally `cls(edges, vertices)` binds
edges to vertices by id (`KeyError`) and asserts `is_valid()` of every edge (`AssertionError`).
-/

namespace GraphSlam.Model.G2O

variable {A : Type}

/-- `[float(number) for number in toks]` -/
def floats (env : Env A) (toks : List Str) : Except PyErr (List A) :=
  mapE (fun t => match env.parseF t with | some a => .ok a | none => .error .valueError) toks

/-- `int(numbers[i])` -/
def pyInt (env : Env A) (numbers : List Str) (i : Nat) : Except PyErr Int :=
  match numbers[i]? with
  | none => .error .indexError
  | some t => match env.parseI t with | some z => .ok z | none => .error .valueError

/-- `PoseSE2(arr[:2], arr[2])` (also `PoseSE2([arr[0], arr[1]], arr[2])`): needs three entries, wraps the angle -/
def mkSE2 (env : Env A) : List A → Except PyErr (Pose A)
  | a0 :: a1 :: a2 :: _ => .ok ⟨.se2, [a0, a1, env.wrap a2]⟩
  | _ => .error .indexError

/-- `PoseSE3(arr[:3], arr[3:])` / `PoseSE3(arr[:3], arr[3:7])`: needs seven entries, further entries are ignored -/
def mkSE3 : List A → Except PyErr (Pose A)
  | a0 :: a1 :: a2 :: a3 :: a4 :: a5 :: a6 :: _ => .ok ⟨.se3, [a0, a1, a2, a3, a4, a5, a6]⟩
  | _ => .error .indexError

/-- `estimate.normalize()`: `self[3:] /= sgn * norm(self[3:])` -/
def normalizeSE3 (env : Env A) (p : Pose A) : Pose A :=
  match p.xs with
  | [a0, a1, a2, a3, a4, a5, a6] => ⟨p.kind, a0 :: a1 :: a2 :: env.normQ a3 a4 a5 a6⟩
  | _ => p

/-- a `from_g2o` branch that was entered returns an object (or raises), never `None` -/
def someE {α : Type} : Except PyErr α → Except PyErr (Option α)
  | .ok a => .ok (some a)
  | .error e => .error e

/-- the text after `TAG + " "`, split: `line[len("TAG "):].split()` -/
def numbersOf (tag : Str) (line : Str) : List Str := splitWS (line.drop (tag.length + 1))

/-- the branch of `Vertex.fromG2O` for the tag `T.vertexXY` -/
def Vertex.from_vertexXY (env : Env A) (line : Str) : Except PyErr (Vertex A) :=
  let numbers := numbersOf T.vertexXY line
  match floats env (numbers.drop 1) with
  | .error e => .error e
  | .ok arr =>
    match pyInt env numbers 0 with
    | .error e => .error e
    | .ok i => .ok ⟨i, ⟨.r2, arr⟩⟩

/-- the branch of `Vertex.fromG2O` for the tag `T.vertexTrackXYZ` -/
def Vertex.from_vertexTrackXYZ (env : Env A) (line : Str) : Except PyErr (Vertex A) :=
  let numbers := numbersOf T.vertexTrackXYZ line
  match floats env (numbers.drop 1) with
  | .error e => .error e
  | .ok arr =>
    match pyInt env numbers 0 with
    | .error e => .error e
    | .ok i => .ok ⟨i, ⟨.r3, arr⟩⟩

/-- the branch of `Vertex.fromG2O` for the tag `T.vertexSE2` -/
def Vertex.from_vertexSE2 (env : Env A) (line : Str) : Except PyErr (Vertex A) :=
  let numbers := numbersOf T.vertexSE2 line
  match floats env (numbers.drop 1) with
  | .error e => .error e
  | .ok arr =>
    match mkSE2 env arr with
    | .error e => .error e
    | .ok p =>
      match pyInt env numbers 0 with
      | .error e => .error e
      | .ok i => .ok ⟨i, p⟩

/-- the branch of `Vertex.fromG2O` for the tag `T.vertexSE3` -/
def Vertex.from_vertexSE3 (env : Env A) (line : Str) : Except PyErr (Vertex A) :=
  let numbers := numbersOf T.vertexSE3 line
  match floats env (numbers.drop 1) with
  | .error e => .error e
  | .ok arr =>
    match mkSE3 arr with
    | .error e => .error e
    | .ok p =>
      match pyInt env numbers 0 with
      | .error e => .error e
      | .ok i => .ok ⟨i, p⟩

/-- `Vertex.from_g2o` (vertex.py:106-152); `none` = the line is not a vertex line -/
def Vertex.fromG2O (env : Env A) (line : Str) : Except PyErr (Option (Vertex A)) :=
  if startsWith (withSp T.vertexXY) line then someE (Vertex.from_vertexXY env line)
  else if startsWith (withSp T.vertexTrackXYZ) line then someE (Vertex.from_vertexTrackXYZ env line)
  else if startsWith (withSp T.vertexSE2) line then someE (Vertex.from_vertexSE2 env line)
  else if startsWith (withSp T.vertexSE3) line then someE (Vertex.from_vertexSE3 env line)
  else .ok none

/-- the branch of `EdgeOdometry.fromG2O` for the tag `T.edgeSE2` -/
def EdgeOdometry.from_edgeSE2 (env : Env A) (line : Str) : Except PyErr (Edge A) :=
  let numbers := numbersOf T.edgeSE2 line
  match floats env (numbers.drop 2) with
  | .error e => .error e
  | .ok arr =>
    match pyInt env numbers 0 with
    | .error e => .error e
    | .ok i0 =>
      match pyInt env numbers 1 with
      | .error e => .error e
      | .ok i1 =>
        match mkSE2 env arr with
        | .error e => .error e
        | .ok est =>
          match expandTriu env.zero 3 (arr.drop 3) with
          | .error e => .error e
          | .ok info => .ok ⟨[i0, i1], info, .odometry est⟩

/-- the branch of `EdgeOdometry.fromG2O` for the tag `T.edgeSE3` -/
def EdgeOdometry.from_edgeSE3 (env : Env A) (line : Str) : Except PyErr (Edge A) :=
  let numbers := numbersOf T.edgeSE3 line
  match floats env (numbers.drop 2) with
  | .error e => .error e
  | .ok arr =>
    match pyInt env numbers 0 with
    | .error e => .error e
    | .ok i0 =>
      match pyInt env numbers 1 with
      | .error e => .error e
      | .ok i1 =>
        match mkSE3 arr with
        | .error e => .error e
        | .ok est =>
          match expandTriu env.zero 6 (arr.drop 7) with
          | .error e => .error e
          | .ok info => .ok ⟨[i0, i1], info, .odometry (normalizeSE3 env est)⟩

/-- `EdgeOdometry.from_g2o` (edge_odometry.py:149-185) -/
def EdgeOdometry.fromG2O (env : Env A) (line : Str) : Except PyErr (Option (Edge A)) :=
  if startsWith (withSp T.edgeSE2) line then someE (EdgeOdometry.from_edgeSE2 env line)
  else if startsWith (withSp T.edgeSE3) line then someE (EdgeOdometry.from_edgeSE3 env line)
  else .ok none

/-- the branch of `EdgeLandmark.fromG2O` for the tag `T.edgeSE2XY` -/
def EdgeLandmark.from_edgeSE2XY (env : Env A) (_params : List (Param A)) (line : Str) : Except PyErr (Edge A) :=
  let numbers := numbersOf T.edgeSE2XY line
  match floats env (numbers.drop 2) with
  | .error e => .error e
  | .ok arr =>
    match pyInt env numbers 0 with
    | .error e => .error e
    | .ok i0 =>
      match pyInt env numbers 1 with
      | .error e => .error e
      | .ok i1 =>
        match expandTriu env.zero 2 (arr.drop 2) with
        | .error e => .error e
        | .ok info =>
          .ok ⟨[i0, i1], info, .landmark ⟨.r2, arr.take 2⟩ ⟨.se2, [env.zero, env.zero, env.wrap env.zero]⟩ (some 0)⟩

/-- the branch of `EdgeLandmark.fromG2O` for the tag `T.edgeSE3TrackXYZ` -/
def EdgeLandmark.from_edgeSE3TrackXYZ (env : Env A) (params : List (Param A)) (line : Str) : Except PyErr (Edge A) :=
  let numbers := numbersOf T.edgeSE3TrackXYZ line
  match floats env (numbers.drop 3) with
  | .error e => .error e
  | .ok arr =>
    match pyInt env numbers 0 with
    | .error e => .error e
    | .ok i0 =>
      match pyInt env numbers 1 with
      | .error e => .error e
      | .ok i1 =>
        match pyInt env numbers 2 with
        | .error e => .error e
        | .ok oid =>
          match lookupParam params .se3offset oid with
          | none => .error .keyError
          | some p =>
            match expandTriu env.zero 3 (arr.drop 3) with
            | .error e => .error e
            | .ok info => .ok ⟨[i0, i1], info, .landmark ⟨.r3, arr.take 3⟩ p.value (some oid)⟩

/-- `EdgeLandmark.from_g2o` (edge_landmark.py:161-199); `params` is the dictionary of the parameters read so far -/
def EdgeLandmark.fromG2O (env : Env A) (params : List (Param A)) (line : Str) : Except PyErr (Option (Edge A)) :=
  if startsWith (withSp T.edgeSE2XY) line then someE (EdgeLandmark.from_edgeSE2XY env params line)
  else if startsWith (withSp T.edgeSE3TrackXYZ) line then someE (EdgeLandmark.from_edgeSE3TrackXYZ env params line)
  else .ok none

/-- the branch of `Param.fromG2O` for the tag `T.paramsSE2Offset` -/
def Param.from_paramsSE2Offset (env : Env A) (line : Str) : Except PyErr (Param A) :=
  let numbers := numbersOf T.paramsSE2Offset line
  match floats env (numbers.drop 1) with
  | .error e => .error e
  | .ok arr =>
    match pyInt env numbers 0 with
    | .error e => .error e
    | .ok i =>
      match mkSE2 env arr with
      | .error e => .error e
      | .ok p => .ok ⟨.se2offset, i, p⟩

/-- the branch of `Param.fromG2O` for the tag `T.paramsSE3Offset` -/
def Param.from_paramsSE3Offset (env : Env A) (line : Str) : Except PyErr (Param A) :=
  let numbers := numbersOf T.paramsSE3Offset line
  match floats env (numbers.drop 1) with
  | .error e => .error e
  | .ok arr =>
    match pyInt env numbers 0 with
    | .error e => .error e
    | .ok i =>
      match mkSE3 arr with
      | .error e => .error e
      | .ok p => .ok ⟨.se3offset, i, p⟩

/-- `G2OParameterSE2Offset.from_g2o`, then `G2OParameterSE3Offset.from_g2o` (g2o_parameters.py; `param_from_g2o` in
graph.py:581-602).  Here the id is converted **before** the pose is built. -/
def Param.fromG2O (env : Env A) (line : Str) : Except PyErr (Option (Param A)) :=
  if startsWith (withSp T.paramsSE2Offset) line then someE (Param.from_paramsSE2Offset env line)
  else if startsWith (withSp T.paramsSE3Offset) line then someE (Param.from_paramsSE3Offset env line)
  else .ok none

/-- a registered custom edge type: its `from_g2o(line, g2o_params)` class method (user code, a parameter of the model) -/
structure CustomType (A : Type) where
  fromG2O : Str → List (Param A) → Except PyErr (Option (Edge A))

/-- `custom_edge_from_g2o` (graph.py:604-627): the first type that returns an edge -/
def customFromG2O (customs : List (CustomType A)) (line : Str) (params : List (Param A)) : Except PyErr (Option (Edge A)) :=
  match customs with
  | [] => .ok none
  | c :: cs =>
    match c.fromG2O line params with
    | .error e => .error e
    | .ok (some e) => .ok (some e)
    | .ok none => customFromG2O cs line params

/-- what one non-blank line turns into -/
inductive LineOut (A : Type)
  | vertex (v : Vertex A)
  | edge (e : Edge A)
  | param (p : Param A)
  | unsupported
  deriving DecidableEq, Repr

/-- the body of the loop in `Graph.from_g2o` (graph.py:631-661) for one non-blank line -/
def parseLine (env : Env A) (customs : List (CustomType A)) (params : List (Param A)) (line : Str) : Except PyErr (LineOut A) :=
  match Vertex.fromG2O env line with
  | .error e => .error e
  | .ok (some v) => .ok (.vertex v)
  | .ok none =>
    match customFromG2O customs line params with
    | .error e => .error e
    | .ok (some e) => .ok (.edge e)
    | .ok none =>
      match EdgeOdometry.fromG2O env line with
      | .error e => .error e
      | .ok (some e) => .ok (.edge e)
      | .ok none =>
        match EdgeLandmark.fromG2O env params line with
        | .error e => .error e
        | .ok (some e) => .ok (.edge e)
        | .ok none =>
          match Param.fromG2O env line with
          | .error e => .error e
          | .ok (some p) => .ok (.param p)
          | .ok none => .ok .unsupported

/-- `"Line not supported -- '%s'" % line.rstrip()` -/
def unsupportedMsg (line : Str) : Str :=
  ['L','i','n','e',' ','n','o','t',' ','s','u','p','p','o','r','t','e','d',' ','-','-',' ','\''] ++ rstrip line ++ ['\'']

/-- the loop state: the three containers and the log -/
structure PState (A : Type) where
  params : List (Param A)
  vertices : List (Vertex A)
  edges : List (Edge A)
  warnings : List LogRec
  deriving DecidableEq, Repr

def PState.empty : PState A := ⟨[], [], [], []⟩

/-- `vertices.append` / `edges.append` / `g2o_params[key] = param` / `_LOGGER.warning` -/
def PState.push (st : PState A) (line : Str) : LineOut A → PState A
  | .vertex v => { st with vertices := st.vertices ++ [v] }
  | .edge e => { st with edges := st.edges ++ [e] }
  | .param p => { st with params := dictSet st.params p }
  | .unsupported => { st with warnings := st.warnings ++ [⟨.graph, unsupportedMsg line⟩] }

/-- the loop over the lines; an exception stops it (the records logged so far stay logged) -/
def parseLines (env : Env A) (customs : List (CustomType A)) : PState A → List Str → PState A × Option PyErr
  | st, [] => (st, none)
  | st, l :: ls =>
    if isBlank l then parseLines env customs st ls
    else
      match parseLine env customs st.params l with
      | .error e => (st, some e)
      | .ok out => parseLines env customs (st.push l out) ls

/-! ### `Graph.__init__` / `_initialize` (graph.py:320-353) -/

/-- `e.vertices = [self._vertices[id_index_dict[v_id]] for v_id in e.vertex_ids]` -/
def bindEdge (vs : List (Vertex A)) (e : Edge A) : Except PyErr (List (Vertex A)) :=
  mapE (fun i => match lookupVertex vs i with | some v => .ok v | none => .error .keyError) e.ids

def squareOf (M : Mat A) (n : Nat) : Bool := M.length == n && M.all (fun r => r.length == n)

/-- `e.is_valid()` for the bound vertices `bs` (`_is_valid` holds after binding) -/
def Edge.isValid (e : Edge A) (bs : List (Vertex A)) : Bool :=
  match e.body with
  | .odometry est =>
    match bs with
    | [v0, v1] => v1.pose.kind == v0.pose.kind && est.kind == v0.pose.kind && squareOf e.info v0.pose.kind.compactDim
    | _ => false
  | .landmark est off _ =>
    match bs with
    | [v0, v1] => off.kind == v0.pose.kind && est.kind == v1.pose.kind && squareOf e.info v1.pose.kind.compactDim
    | _ => false
  | .custom _ _ _ => true

/-- `Graph(edges, vertices)`: bind every edge (first missing id: `KeyError`), then `assert all(e.is_valid() ...)` -/
def Graph.init (params : List (Param A)) (vertices : List (Vertex A)) (edges : List (Edge A)) : Except PyErr (Graph A) :=
  match mapE (bindEdge vertices) edges with
  | .error e => .error e
  | .ok bss =>
    if (List.zip edges bss).all (fun eb => eb.1.isValid eb.2) then .ok ⟨params, vertices, edges⟩
    else .error .assertionError

/-- result of a loader call: the log records and the graph or the exception -/
structure ParseOut (A : Type) where
  warnings : List LogRec
  result : Except PyErr (Graph A)

/-- `Graph.from_g2o` on the list of lines -/
def fromLines (env : Env A) (customs : List (CustomType A)) (lines : List Str) : ParseOut A :=
  match parseLines env customs PState.empty lines with
  | (st, some e) => ⟨st.warnings, .error e⟩
  | (st, none) => ⟨st.warnings, Graph.init st.params st.vertices st.edges⟩

/-- `Graph.from_g2o(infile, custom_edge_types)` on the decoded file content -/
def Graph.fromG2O (env : Env A) (customs : List (CustomType A)) (text : Str) : ParseOut A :=
  fromLines env customs (readlines text)

/-! ### `load.py` -/

inductive Loader
  | g2o | r2 | r3 | se2 | se3
  deriving DecidableEq, Repr

def Loader.msg : Loader → Str
  | .g2o => "load_g2o is deprecated; use Graph.load_g2o instead".toList
  | .r2 => "load_g2o_r2 is deprecated; use Graphload_g2o instead".toList
  | .r3 => "load_g2o_r3 is deprecated; use Graph.load_g2o instead".toList
  | .se2 => "load_g2o_se2 is deprecated; use Graph.load_g2o instead".toList
  | .se3 => "load_g2o_se3 is deprecated; use Graph.load_g2o instead".toList

/-- `_LOGGER.warning(msg); return Graph.from_g2o(infile)` -/
def withDeprecation (m : Str) (r : ParseOut A) : ParseOut A := ⟨⟨.load, m⟩ :: r.warnings, r.result⟩

def load_g2o (env : Env A) (text : Str) : ParseOut A := withDeprecation (Loader.msg .g2o) (Graph.fromG2O env [] text)
def load_g2o_r2 (env : Env A) (text : Str) : ParseOut A := withDeprecation (Loader.msg .r2) (Graph.fromG2O env [] text)
def load_g2o_r3 (env : Env A) (text : Str) : ParseOut A := withDeprecation (Loader.msg .r3) (Graph.fromG2O env [] text)
def load_g2o_se2 (env : Env A) (text : Str) : ParseOut A := withDeprecation (Loader.msg .se2) (Graph.fromG2O env [] text)
def load_g2o_se3 (env : Env A) (text : Str) : ParseOut A := withDeprecation (Loader.msg .se3) (Graph.fromG2O env [] text)

def Loader.run (env : Env A) (text : Str) : Loader → ParseOut A
  | .g2o => load_g2o env text
  | .r2 => load_g2o_r2 env text
  | .r3 => load_g2o_r3 env text
  | .se2 => load_g2o_se2 env text
  | .se3 => load_g2o_se3 env text

end GraphSlam.Model.G2O
