import GraphSlam.Model.G2O.Chars

/-!
# .g2o model, level 3: objects, the numeric environment, exceptions

Numbers are **atoms**: the model never parses, prints or computes with a float.  `A` is the type of float atoms (in
the driver: the 64-bit pattern), vertex / parameter ids are Python ints (`Int`).  Everything CPython / numpy does to a
number is a field of `Env`, supplied per run by the harness as finite tables built with the real functions:

* `parseF` = `float(token)` (`none` = `ValueError`), `parseI` = `int(token)` (`none` = `ValueError`)
* `fmtF`   = `str(x)` / `"{}".format(x)` of a `numpy.float64`, `fmtI` = the same for a Python `int`
* `wrap`   = `graphslam.util.neg_pi_to_pi` (called by the `PoseSE2` constructor)
* `normQ`  = what `PoseSE3.normalize()` does to the quaternion entries `[3:]` (the position is not touched)
* `zero`   = `0.0` (`np.zeros`, `PoseSE2.identity()`), `numEq` = IEEE `==` (`np.array_equal` element test)
-/

namespace GraphSlam.Model.G2O

/-- exception classes that the modelled code can raise; `unbound` is model-only (an edge whose vertex ids are not in
the graph cannot exist as a constructed `Graph`) -/
inductive PyErr
  | valueError | indexError | keyError | assertionError | notImplementedError | unbound
  deriving DecidableEq, Repr, Inhabited

structure Env (A : Type) where
  parseF : Str → Option A
  parseI : Str → Option Int
  fmtF : A → Str
  fmtI : Int → Str
  wrap : A → A
  normQ : A → A → A → A → List A
  zero : A
  numEq : A → A → Bool

/-- the class of a pose object; `other` = any class that is none of the four (export raises `NotImplementedError`) -/
inductive PoseKind
  | r2 | r3 | se2 | se3 | other
  deriving DecidableEq, Repr, Inhabited

/-- `COMPACT_DIMENSIONALITY` -/
def PoseKind.compactDim : PoseKind → Nat
  | .r2 => 2 | .r3 => 3 | .se2 => 3 | .se3 => 6 | .other => 0

/-- a pose is a numpy array subclass: its class and its entries (any number of them: `PoseR2(arr)` does not check) -/
structure Pose (A : Type) where
  kind : PoseKind
  xs : List A
  deriving DecidableEq, Repr

structure Vertex (A : Type) where
  id : Int
  pose : Pose A
  deriving DecidableEq, Repr

inductive ParamKind
  | se2offset | se3offset
  deriving DecidableEq, Repr, Inhabited

/-- a `G2OParameterSE2Offset` / `G2OParameterSE3Offset`: dictionary key `(tag, id)` and value -/
structure Param (A : Type) where
  kind : ParamKind
  id : Int
  value : Pose A
  deriving DecidableEq, Repr

abbrev Mat (A : Type) := List (List A)

/-- the part of an edge that depends on its class.  A custom edge's `to_g2o()` is user code: its result (`None`, or the
returned string) is data (`out`). -/
inductive EdgeBody (A : Type)
  | odometry (estimate : Pose A)
  | landmark (estimate : Pose A) (offset : Pose A) (offsetId : Option Int)
  | custom (cls : Nat) (estimate : List A) (out : Option Str)
  deriving DecidableEq, Repr

structure Edge (A : Type) where
  ids : List Int
  info : Mat A
  body : EdgeBody A
  deriving DecidableEq, Repr

/-- a constructed `Graph`: `_g2o_params` (dictionary in insertion order; `[]` for `None`/empty), `_vertices`, `_edges` -/
structure Graph (A : Type) where
  params : List (Param A)
  vertices : List (Vertex A)
  edges : List (Edge A)
  deriving DecidableEq, Repr

inductive Logger
  | graph | load
  deriving DecidableEq, Repr

/-- one `logging` record at WARNING level -/
structure LogRec where
  logger : Logger
  msg : Str
  deriving DecidableEq, Repr

/-! ### small Python idioms -/

/-- `[f(x) for x in xs]` where `f` may raise: the first exception wins -/
def mapE {α β : Type} (f : α → Except PyErr β) : List α → Except PyErr (List β)
  | [] => .ok []
  | a :: as =>
    match f a with
    | .error e => .error e
    | .ok b =>
      match mapE f as with
      | .error e => .error e
      | .ok bs => .ok (b :: bs)

/-- `xs[i]` -/
def getIdx {α : Type} (xs : List α) (i : Nat) : Except PyErr α :=
  match xs[i]? with
  | some a => .ok a
  | none => .error .indexError

/-- `M[i, j]` -/
def get2 {α : Type} (M : List (List α)) (i j : Nat) : Except PyErr α :=
  match M[i]? with
  | some row => getIdx row j
  | none => .error .indexError

/-- `np.array_equal(a, b)` for 1-D arrays: same length and every pair `==` -/
def numEqList {A : Type} (env : Env A) : List A → List A → Bool
  | [], [] => true
  | a :: as, b :: bs => env.numEq a b && numEqList env as bs
  | _, _ => false

/-- `self._vertices[id_index_dict[v_id]]` with `id_index_dict = {v.id: i for i, v in enumerate(vertices)}`: the **last**
vertex carrying the id -/
def lookupVertex {A : Type} (vs : List (Vertex A)) (id : Int) : Option (Vertex A) :=
  vs.reverse.find? (fun v => v.id == id)

/-- `g2o_params.get((tag, id))` -/
def lookupParam {A : Type} (ps : List (Param A)) (k : ParamKind) (id : Int) : Option (Param A) :=
  ps.find? (fun p => p.kind == k && p.id == id)

/-- `g2o_params[p.key] = p`: an existing key keeps its position and gets the new value, a new key goes to the end -/
def dictSet {A : Type} : List (Param A) → Param A → List (Param A)
  | [], p => [p]
  | q :: qs, p => if q.kind == p.kind && q.id == p.id then p :: qs else q :: dictSet qs p

end GraphSlam.Model.G2O
