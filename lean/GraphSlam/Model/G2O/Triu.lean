import GraphSlam.Model.G2O.Objects

/-!
# `information[np.triu_indices(n, 0)]` and `util.upper_triangular_matrix_to_full_matrix`

`triuPairs n` is `zip(*np.triu_indices(n, 0))`: the positions `(i, j)`, `i ≤ j < n`, in row-major order.
The reader's expansion mirrors util.py:68-75 step by step:
`mat = zeros; mat[triu0] = arr` (`upperAt`: entry `(i,j)` receives `arr[k]` where `k` is the position of `(i,j)` in
`triuPairs n`; a length-1 `arr` is broadcast by numpy, any other wrong length raises `ValueError`), then
`mat[tril1] = mat.T[tril1]` (`fullAt`: below the diagonal read the mirrored entry).
-/

namespace GraphSlam.Model.G2O

def triuPairs (n : Nat) : List (Nat × Nat) :=
  (List.range n).flatMap fun i => (List.range' i (n - i)).map fun j => (i, j)

/-- `information[np.triu_indices(n, 0)]` (writer) -/
def triuOf {A : Type} (M : Mat A) (n : Nat) : Except PyErr (List A) :=
  mapE (fun p => get2 M p.1 p.2) (triuPairs n)

/-- entry `(i, j)` after `mat = np.zeros((n, n)); mat[triu0] = arr` -/
def upperAt {A : Type} (zero : A) (n : Nat) (arr : List A) (i j : Nat) : A :=
  if (triuPairs n).contains (i, j) then arr.getD ((triuPairs n).idxOf (i, j)) zero else zero

/-- entry `(i, j)` after `mat[tril1] = mat.T[tril1]` -/
def fullAt {A : Type} (zero : A) (n : Nat) (arr : List A) (i j : Nat) : A :=
  if j < i then upperAt zero n arr j i else upperAt zero n arr i j

def fullOfTriu {A : Type} (zero : A) (n : Nat) (arr : List A) : Mat A :=
  (List.range n).map fun i => (List.range n).map fun j => fullAt zero n arr i j

/-- `upper_triangular_matrix_to_full_matrix(arr, n)` -/
def expandTriu {A : Type} (zero : A) (n : Nat) (arr : List A) : Except PyErr (Mat A) :=
  if arr.length = (triuPairs n).length then .ok (fullOfTriu zero n arr)
  else
    match arr with
    | [a] => .ok (fullOfTriu zero n (List.replicate (triuPairs n).length a))
    | _ => .error .valueError

end GraphSlam.Model.G2O
