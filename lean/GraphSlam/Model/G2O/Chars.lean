/-!
# .g2o model, level 1: characters

Python `str` operations used by the reader and the writer, on `List Char` (one `Char` per Unicode code point, as in
a Python `str`).  Mathlib-free, total, executable.

* `isPySpace`   : `str.isspace()` of one character (CPython `_PyUnicode_IsWhitespace`); decides `split()`, `strip()`, `rstrip()`
* `splitWS`     : `s.split()` (no argument: runs of whitespace separate, no empty tokens)
* `isBlank`     : `not s.strip()`
* `rstrip`      : `s.rstrip()`
* `startsWith`  : `s.startswith(p)`
* `joinSp`      : `" ".join(ts)`
* `readlines`   : `open(path).readlines()` in text mode with universal newlines (`\r\n` and lone `\r` become `\n`,
                  every line keeps its terminator, the last line may lack one)
-/

namespace GraphSlam.Model.G2O

abbrev Str := List Char

/-- `c.isspace()` for a Python `str` character -/
def isPySpace (c : Char) : Bool :=
  let n := c.toNat
  (9 ≤ n && n ≤ 13) || (28 ≤ n && n ≤ 32) || n == 0x85 || n == 0xA0 || n == 0x1680 ||
  (0x2000 ≤ n && n ≤ 0x200A) || n == 0x2028 || n == 0x2029 || n == 0x202F || n == 0x205F || n == 0x3000

/-- `split()` with the current token kept reversed in `cur` -/
def splitAux : Str → Str → List Str
  | [], cur => if cur.isEmpty then [] else [cur.reverse]
  | c :: cs, cur =>
    if isPySpace c then
      (if cur.isEmpty then splitAux cs [] else cur.reverse :: splitAux cs [])
    else splitAux cs (c :: cur)

/-- `s.split()` -/
def splitWS (s : Str) : List Str := splitAux s []

/-- `not s.strip()` : the string has no non-whitespace character -/
def isBlank (s : Str) : Bool := s.all isPySpace

/-- `s.rstrip()` -/
def rstrip (s : Str) : Str := (s.reverse.dropWhile isPySpace).reverse

/-- `s.startswith(p)` -/
def startsWith (p s : Str) : Bool := p.isPrefixOf s

/-- `" ".join(ts)` -/
def joinSp : List Str → Str
  | [] => []
  | [t] => t
  | t :: u :: ts => t ++ ' ' :: joinSp (u :: ts)

/-- universal-newline translation of the text layer: `\r\n` → `\n`, lone `\r` → `\n` -/
def translateNL : Str → Str
  | [] => []
  | [c] => if c = '\r' then ['\n'] else [c]
  | c :: d :: cs =>
    if c = '\r' then (if d = '\n' then '\n' :: translateNL cs else '\n' :: translateNL (d :: cs))
    else c :: translateNL (d :: cs)

/-- split after every `\n`, keeping the terminator; `cur` is the current line reversed -/
def splitLinesAux : Str → Str → List Str
  | [], cur => if cur.isEmpty then [] else [cur.reverse]
  | c :: cs, cur => if c = '\n' then (c :: cur).reverse :: splitLinesAux cs [] else splitLinesAux cs (c :: cur)

/-- `f.readlines()` of a text-mode file with the given decoded content -/
def readlines (s : Str) : List Str := splitLinesAux (translateNL s) []

end GraphSlam.Model.G2O
