import GraphSlam.Model.G2O.Chars

/-! # The vocabulary: the ten line tags (without the trailing space), as explicit character lists -/

namespace GraphSlam.Model.G2O

def T.vertexXY : Str := ['V','E','R','T','E','X','_','X','Y']
def T.vertexTrackXYZ : Str := ['V','E','R','T','E','X','_','T','R','A','C','K','X','Y','Z']
def T.vertexSE2 : Str := ['V','E','R','T','E','X','_','S','E','2']
def T.vertexSE3 : Str := ['V','E','R','T','E','X','_','S','E','3',':','Q','U','A','T']
def T.edgeSE2 : Str := ['E','D','G','E','_','S','E','2']
def T.edgeSE3 : Str := ['E','D','G','E','_','S','E','3',':','Q','U','A','T']
def T.edgeSE2XY : Str := ['E','D','G','E','_','S','E','2','_','X','Y']
def T.edgeSE3TrackXYZ : Str := ['E','D','G','E','_','S','E','3','_','T','R','A','C','K','X','Y','Z']
def T.paramsSE2Offset : Str := ['P','A','R','A','M','S','_','S','E','2','O','F','F','S','E','T']
def T.paramsSE3Offset : Str := ['P','A','R','A','M','S','_','S','E','3','O','F','F','S','E','T']

/-- the character lists spell the literals of the source -/
theorem T.spelling :
    T.vertexXY = "VERTEX_XY".toList ∧ T.vertexTrackXYZ = "VERTEX_TRACKXYZ".toList ∧ T.vertexSE2 = "VERTEX_SE2".toList ∧
    T.vertexSE3 = "VERTEX_SE3:QUAT".toList ∧ T.edgeSE2 = "EDGE_SE2".toList ∧ T.edgeSE3 = "EDGE_SE3:QUAT".toList ∧
    T.edgeSE2XY = "EDGE_SE2_XY".toList ∧ T.edgeSE3TrackXYZ = "EDGE_SE3_TRACKXYZ".toList ∧
    T.paramsSE2Offset = "PARAMS_SE2OFFSET".toList ∧ T.paramsSE3Offset = "PARAMS_SE3OFFSET".toList :=
  ⟨rfl, rfl, rfl, rfl, rfl, rfl, rfl, rfl, rfl, rfl⟩

/-- the ten tags in the order in which `Graph.from_g2o` tries them -/
def T.all : List Str :=
  [T.vertexXY, T.vertexTrackXYZ, T.vertexSE2, T.vertexSE3, T.edgeSE2, T.edgeSE3, T.edgeSE2XY, T.edgeSE3TrackXYZ,
   T.paramsSE2Offset, T.paramsSE3Offset]

/-- `tag + " "` -/
def withSp (t : Str) : Str := t ++ [' ']

end GraphSlam.Model.G2O
