import GraphSlam.Model.G2O.Triu
import GraphSlam.Model.G2O.Tags

/-!
# .g2o model: the writer (`Graph.to_g2o`, graph.py:525-552, and the `to_g2o` methods it calls)

Stage by stage:
1. the pre-check loop over the edges (graph.py:534-538): an `EdgeLandmark` whose offset is a `PoseSE3` must find
   `("PARAMS_SE3OFFSET", offset_id)` among the graph's parameters with a value `np.array_equal` to the offset, else
   `ValueError` — raised **before** the file is opened;
2. parameters in dictionary order, 3. vertices, 4. edges (an edge whose `to_g2o()` is falsy writes nothing).
A `to_g2o` that raises leaves the text written so far in the file (`with open(...)` flushes on exit): `toG2OTrace`
returns that text together with the exception.
-/

namespace GraphSlam.Model.G2O

variable {A : Type}

/-- `"TAG {} {} ...\n".format(fields...)` -/
def fmtLine (tag : Str) (fields : List Str) : Str := tag ++ ' ' :: (joinSp fields ++ ['\n'])

/-- `"TAG {} ... {} ".format(fields...) + " ".join(infos) + "\n"` -/
def fmtEdgeLine (tag : Str) (fields infos : List Str) : Str :=
  tag ++ ' ' :: (joinSp fields ++ ' ' :: (joinSp infos ++ ['\n']))

/-- `[self.pose[0], ..., self.pose[k-1]]` formatted -/
def fmtEntries (env : Env A) (xs : List A) (k : Nat) : Except PyErr (List Str) :=
  mapE (fun i => match getIdx xs i with | .ok a => .ok (env.fmtF a) | .error e => .error e) (List.range k)

/-- `Vertex.to_g2o` (vertex.py:73-104): `isinstance` tests in the order SE2, SE3, R2, R3 -/
def Vertex.toG2O (env : Env A) (v : Vertex A) : Except PyErr Str :=
  match v.pose.kind with
  | .se2 => match fmtEntries env v.pose.xs 3 with
    | .ok fs => .ok (fmtLine T.vertexSE2 (env.fmtI v.id :: fs)) | .error e => .error e
  | .se3 => match fmtEntries env v.pose.xs 7 with
    | .ok fs => .ok (fmtLine T.vertexSE3 (env.fmtI v.id :: fs)) | .error e => .error e
  | .r2 => match fmtEntries env v.pose.xs 2 with
    | .ok fs => .ok (fmtLine T.vertexXY (env.fmtI v.id :: fs)) | .error e => .error e
  | .r3 => match fmtEntries env v.pose.xs 3 with
    | .ok fs => .ok (fmtLine T.vertexTrackXYZ (env.fmtI v.id :: fs)) | .error e => .error e
  | .other => .error .notImplementedError

/-- `G2OParameterSE2Offset.to_g2o` / `G2OParameterSE3Offset.to_g2o` -/
def Param.toG2O (env : Env A) (p : Param A) : Except PyErr Str :=
  match p.kind with
  | .se2offset => match fmtEntries env p.value.xs 3 with
    | .ok fs => .ok (fmtLine T.paramsSE2Offset (env.fmtI p.id :: fs)) | .error e => .error e
  | .se3offset => match fmtEntries env p.value.xs 7 with
    | .ok fs => .ok (fmtLine T.paramsSE3Offset (env.fmtI p.id :: fs)) | .error e => .error e

/-- `[self.vertex_ids[0], self.vertex_ids[1]]` formatted -/
def fmtIds (env : Env A) (ids : List Int) (k : Nat) : Except PyErr (List Str) :=
  mapE (fun i => match getIdx ids i with | .ok z => .ok (env.fmtI z) | .error e => .error e) (List.range k)

/-- `[str(x) for x in self.information[np.triu_indices(n, 0)]]` -/
def fmtInfo (env : Env A) (M : Mat A) (n : Nat) : Except PyErr (List Str) :=
  match triuOf M n with
  | .ok xs => .ok (xs.map env.fmtF)
  | .error e => .error e

/-- `PoseSE2.identity()` = `PoseSE2([0.0, 0.0], 0.0)` -/
def identitySE2 (env : Env A) : List A := [env.zero, env.zero, env.wrap env.zero]

/-- `"None"` -/
def noneStr : Str := ['N','o','n','e']

/-- `"{}".format(self.offset_id)` -/
def fmtOffsetId (env : Env A) : Option Int → Str
  | some z => env.fmtI z
  | none => noneStr

/-- `EdgeOdometry.to_g2o` (edge_odometry.py:131-147) and `EdgeLandmark.to_g2o` (edge_landmark.py:138-159), `BaseEdge.to_g2o`
for custom edges; `k0` is the class of `self.vertices[0].pose`, `k1` that of `self.vertices[1].pose` (only the landmark
writer looks at it, and only after the test on `k0` succeeded: `isinstance(v[0].pose, PoseSE2) and isinstance(v[1].pose, PoseR2)`).
`none` = the method returned `None`. -/
def Edge.toG2O (env : Env A) (k0 : PoseKind) (k1 : Except PyErr PoseKind) (e : Edge A) : Except PyErr (Option Str) :=
  match e.body with
  | .odometry est =>
    match k0 with
    | .se2 =>
      match fmtIds env e.ids 2, fmtEntries env est.xs 3, fmtInfo env e.info 3 with
      | .ok is, .ok fs, .ok ms => .ok (some (fmtEdgeLine T.edgeSE2 (is ++ fs) ms))
      | .error x, _, _ => .error x
      | _, .error x, _ => .error x
      | _, _, .error x => .error x
    | .se3 =>
      match fmtIds env e.ids 2, fmtEntries env est.xs 7, fmtInfo env e.info 6 with
      | .ok is, .ok fs, .ok ms => .ok (some (fmtEdgeLine T.edgeSE3 (is ++ fs) ms))
      | .error x, _, _ => .error x
      | _, .error x, _ => .error x
      | _, _, .error x => .error x
    | _ => .error .notImplementedError
  | .landmark est off oid =>
    match k0 with
    | .se2 =>
      match k1 with
      | .error x => .error x
      | .ok .r2 =>
        if numEqList env off.xs (identitySE2 env) then
          match fmtIds env e.ids 2, fmtEntries env est.xs 2, fmtInfo env e.info 2 with
          | .ok is, .ok fs, .ok ms => .ok (some (fmtEdgeLine T.edgeSE2XY (is ++ fs) ms))
          | .error x, _, _ => .error x
          | _, .error x, _ => .error x
          | _, _, .error x => .error x
        else .error .notImplementedError
      | .ok _ => .error .notImplementedError
    | .se3 =>
      match k1 with
      | .error x => .error x
      | .ok .r3 =>
        match fmtIds env e.ids 2, fmtEntries env est.xs 3, fmtInfo env e.info 3 with
        | .ok is, .ok fs, .ok ms => .ok (some (fmtEdgeLine T.edgeSE3TrackXYZ (is ++ fmtOffsetId env oid :: fs) ms))
        | .error x, _, _ => .error x
        | _, .error x, _ => .error x
        | _, _, .error x => .error x
      | .ok _ => .error .notImplementedError
    | _ => .error .notImplementedError
  | .custom _ _ out => .ok out

/-- graph.py:534-538 for one edge -/
def Edge.preCheck (env : Env A) (params : List (Param A)) (e : Edge A) : Bool :=
  match e.body with
  | .landmark _ off oid =>
    if off.kind = .se3 then
      match oid with
      | none => false
      | some z =>
        match lookupParam params .se3offset z with
        | none => false
        | some p => numEqList env p.value.xs off.xs
    else true
  | _ => true

/-- the class of `e.vertices[0].pose` (bound by `Graph._initialize`) -/
def Edge.kind0 (vs : List (Vertex A)) (e : Edge A) : Except PyErr PoseKind :=
  match e.ids with
  | [] => .error .indexError
  | i :: _ =>
    match lookupVertex vs i with
    | some v => .ok v.pose.kind
    | none => .error .unbound

/-- the class of `e.vertices[1].pose` (`IndexError` for an edge with a single vertex) -/
def Edge.kind1 (vs : List (Vertex A)) (e : Edge A) : Except PyErr PoseKind :=
  match e.ids with
  | _ :: i :: _ =>
    match lookupVertex vs i with
    | some v => .ok v.pose.kind
    | none => .error .unbound
  | _ => .error .indexError

/-- what one edge contributes to the file -/
def Edge.write (env : Env A) (vs : List (Vertex A)) (e : Edge A) : Except PyErr Str :=
  match e.body with
  | .custom _ _ out => .ok (out.getD [])
  | _ =>
    match Edge.kind0 vs e with
    | .error x => .error x
    | .ok k0 =>
      match Edge.toG2O env k0 (Edge.kind1 vs e) e with
      | .error x => .error x
      | .ok none => .ok []
      | .ok (some s) => .ok s

/-- successive `f.write(...)` calls: the text written so far and the first exception -/
def writeSeq : List (Except PyErr Str) → Str × Option PyErr
  | [] => ([], none)
  | .error e :: _ => ([], some e)
  | .ok s :: rest => let r := writeSeq rest; (s ++ r.1, r.2)

/-- everything `Graph.to_g2o` does: `none` = refused by the pre-check (file not opened); otherwise the file content and
the exception that interrupted the writing, if any -/
def Graph.toG2OTrace (env : Env A) (g : Graph A) : Option (Str × Option PyErr) :=
  if g.edges.all (Edge.preCheck env g.params) then
    some (writeSeq (g.params.map (Param.toG2O env) ++ g.vertices.map (Vertex.toG2O env) ++ g.edges.map (Edge.write env g.vertices)))
  else none

/-- `Graph.to_g2o` as a function: the file content, or the exception -/
def Graph.toG2O (env : Env A) (g : Graph A) : Except PyErr Str :=
  match Graph.toG2OTrace env g with
  | none => .error .valueError
  | some (s, none) => .ok s
  | some (_, some e) => .error e

end GraphSlam.Model.G2O
