import GraphSlam.Model.Equals
import GraphSlam.Model.Validity

/-!
# Vocabulary of the regenerated guard sequences of `equals` / `is_valid` (C17 / C18 tie)

Hand-written, source-independent.  `tools/translate/py2lean_cmp.py` reads the methods

* `BasePose.equals`, `Vertex.equals`, `BaseEdge.equals`, `EdgeLandmark.equals`, `Graph.equals`
* `BaseEdge._is_valid`, `EdgeOdometry.is_valid`, `EdgeLandmark.is_valid`, the `assert` of `Graph._initialize`

from the current source and writes, for each of them, the *sequence of its statements*
(`if <cond>: return <value>` … `return <value>`) as a `List (Step F)` into `GraphSlam/Generated/CmpPy.lean`.  The
conditions are terms over a record `F` of *observable facts*: one field per atomic sub-expression of the source
(`type(self) is type(other)`, `len(self.vertex_ids)`, `np.linalg.norm(self.information - other.information)`, …).  What the
translator keeps visible in the generated terms is everything that is not an atom: the comparison operators, the
`and` / `or` / `not` / `^` structure, which atom is used where (`self` or `other` in the scale), the order of the guards and
what each of them returns.  This file fixes

* the fact records (the meaning of every field is the Python expression in its docstring),
* the semantics of a statement sequence (`run`) and of Python's short-circuit connectives on results that may be an
  exception (`pAnd`, `pOr`, `pNot`, `pXor`, `rAll`, `rAny`).

`GraphSlam/Props/Tie/CmpPy.lean` then proves `model function = run <facts of the model's arguments> <generated steps>`.
Mathlib-free.
-/

namespace GraphSlam.Model.CmpFacts
open GraphSlam.Model.Cmp GraphSlam.Model.Equals

/-- a Python value or the class of the exception its evaluation raises -/
abbrev Res := Except PyErr

/-! ## Python's connectives on truth values whose evaluation may raise -/

/-- evaluate `c`; an exception propagates, otherwise continue with `t` (true) or `e` (false) -/
def branch (c : Res Bool) (t e : Res Bool) : Res Bool :=
  match c with
  | .error x => .error x
  | .ok true => t
  | .ok false => e

/-- `a and b`: `b` is evaluated only when `a` is true -/
def pAnd (a b : Res Bool) : Res Bool := branch a b (.ok false)

/-- `a or b`: `b` is evaluated only when `a` is false -/
def pOr (a b : Res Bool) : Res Bool := branch a (.ok true) b

/-- `not a` -/
def pNot (a : Res Bool) : Res Bool :=
  match a with
  | .error e => .error e
  | .ok x => .ok (!x)

/-- `a ^ b` on two `bool`s: both operands are evaluated, left first -/
def pXor (a b : Res Bool) : Res Bool :=
  match a with
  | .error e => .error e
  | .ok x =>
    match b with
    | .error e => .error e
    | .ok y => .ok (x != y)

/-- `all(<generator>)`: stops at the first falsy element, propagates the first exception reached -/
def rAll : List (Res Bool) → Res Bool
  | [] => .ok true
  | x :: xs =>
    match x with
    | .error e => .error e
    | .ok false => .ok false
    | .ok true => rAll xs

/-- `any(<generator>)`: stops at the first truthy element, propagates the first exception reached -/
def rAny : List (Res Bool) → Res Bool
  | [] => .ok false
  | x :: xs =>
    match x with
    | .error e => .error e
    | .ok true => .ok true
    | .ok false => rAny xs

/-! ## statement sequences -/

/-- one statement of a method body that consists of early returns -/
inductive Step (F : Type) where
  /-- `if c: return r` -/
  | ifRet (c : F → Res Bool) (r : F → Res Bool)
  /-- `return r` -/
  | ret (r : F → Res Bool)

/-- run the statements in order on the facts `f`: the truth value of what the method returns, or the exception.
    (The translator refuses a body whose last statement is not a `return`; the `[]` case — falling off the end, Python's
    `None` — is therefore never reached from generated code.) -/
def run {F : Type} (f : F) : List (Step F) → Res Bool
  | [] => .ok false
  | .ret r :: _ => r f
  | .ifRet c r :: rest => branch (c f) (r f) (run f rest)

/-! ## evaluation lemmas (used by the tie proofs) -/

@[simp] theorem branch_ok (b : Bool) (t e : Res Bool) : branch (.ok b) t e = if b = true then t else e := by
  cases b <;> rfl

@[simp] theorem branch_error (x : PyErr) (t e : Res Bool) : branch (.error x) t e = .error x := rfl

@[simp] theorem pNot_ok (b : Bool) : pNot (.ok b) = .ok (!b) := rfl

@[simp] theorem pNot_error (x : PyErr) : pNot (.error x) = .error x := rfl

@[simp] theorem pXor_ok (a b : Bool) : pXor (.ok a) (.ok b) = .ok (a != b) := rfl

@[simp] theorem pure_eq_ok {α : Type} (a : α) : (pure a : Res α) = .ok a := rfl

@[simp] theorem bind_ok {α β : Type} (a : α) (f : α → Res β) : (Except.ok a : Res α).bind f = f a := rfl

@[simp] theorem bind_error {α β : Type} (x : PyErr) (f : α → Res β) : (Except.error x : Res α).bind f = .error x := rfl

@[simp] theorem run_ifRet {F : Type} (f : F) (c r : F → Res Bool) (rest : List (Step F)) :
    run f (.ifRet c r :: rest) = branch (c f) (r f) (run f rest) := rfl

@[simp] theorem run_ret {F : Type} (f : F) (r : F → Res Bool) (rest : List (Step F)) : run f (.ret r :: rest) = r f := rfl

/-! ## fact records: `equals` -/

/-- the four numbers a relative-norm test on a quantity `x` (`to_array()`, `information`, `estimate`) can read -/
structure NormFacts (E : Type) where
  /-- `np.linalg.norm(self.x - other.x)` (the subtraction may raise) -/
  selfMinusOther : Res E
  /-- `np.linalg.norm(other.x - self.x)` -/
  otherMinusSelf : Res E
  /-- `np.linalg.norm(self.x)` -/
  self : E
  /-- `np.linalg.norm(other.x)` -/
  other : E

/-- `BasePose.equals(self, other, tol)` -/
structure PoseEqFacts (E : Type) where
  tol : E
  /-- `type(self) is type(other)` -/
  sameType : Bool
  /-- `x = to_array()` -/
  arr : NormFacts E

/-- `Vertex.equals(self, other, tol)` -/
structure VertexEqFacts where
  /-- `self.id` -/
  idSelf : Int
  /-- `other.id` -/
  idOther : Int
  /-- `type(self.pose) is type(other.pose)` -/
  poseSameType : Bool
  /-- `self.pose.equals(other.pose, tol)` -/
  poseEquals : Res Bool

/-- `BaseEdge.equals(self, other, tol)` -/
structure EdgeEqFacts (E : Type) where
  tol : E
  /-- `type(self) is type(other)` -/
  sameType : Bool
  /-- `self.vertex_ids` -/
  idsSelf : List Int
  /-- `other.vertex_ids` -/
  idsOther : List Int
  /-- `self.information.shape` -/
  infoShapeSelf : List Nat
  /-- `other.information.shape` -/
  infoShapeOther : List Nat
  /-- `x = information` -/
  info : NormFacts E
  /-- `isinstance(self.estimate, BasePose)` -/
  estSelfIsPose : Bool
  /-- `isinstance(other.estimate, BasePose)` -/
  estOtherIsPose : Bool
  /-- `self.estimate.equals(other.estimate, tol)` -/
  estPoseEquals : Res Bool
  /-- `np.shape(self.estimate)` -/
  estShapeSelf : List Nat
  /-- `np.shape(other.estimate)` -/
  estShapeOther : List Nat
  /-- `x = estimate` -/
  est : NormFacts E

/-- `EdgeLandmark.equals(self, other, tol)` -/
structure LandmarkEqFacts where
  /-- `type(self) is type(other)` -/
  sameType : Bool
  /-- `type(self.offset) is type(other.offset)` -/
  offsetSameType : Bool
  /-- `self.offset.equals(other.offset, tol)` -/
  offsetEquals : Res Bool
  /-- `self.offset_id` (`none` = `None`) -/
  offsetIdSelf : Option Int
  /-- `other.offset_id` -/
  offsetIdOther : Option Int
  /-- `BaseEdge.equals(self, other, tol)` -/
  baseEquals : Res Bool

/-- `Graph.equals(self, other, tol)` -/
structure GraphEqFacts where
  /-- `len(self._edges)` -/
  numEdgesSelf : Nat
  /-- `len(other._edges)` -/
  numEdgesOther : Nat
  /-- `len(self._vertices)` -/
  numVerticesSelf : Nat
  /-- `len(other._vertices)` -/
  numVerticesOther : Nat
  /-- `e1.equals(e2, tol) for e1, e2 in zip(self._edges, other._edges)`, element by element -/
  edgesSelfOther : List (Res Bool)
  /-- `v1.equals(v2, tol) for v1, v2 in zip(self._vertices, other._vertices)` -/
  verticesSelfOther : List (Res Bool)

/-! ## fact records: validity -/

/-- `BaseEdge._is_valid(self)` -/
structure BaseValidFacts where
  /-- `self.vertices is None` -/
  verticesIsNone : Bool
  /-- `len(self.vertices)` -/
  numVertices : Nat
  /-- `len(self.vertex_ids)` -/
  numVertexIds : Nat
  /-- `[vertex.id for vertex in self.vertices]` -/
  boundIds : List Int
  /-- `self.vertex_ids` -/
  vertexIds : List Int

/-- the objects whose class an `is_valid` method tests -/
inductive ObjRef where
  /-- `self.vertices[i].pose` -/
  | vertexPose (i : Nat)
  /-- `self.estimate` -/
  | estimate
  /-- `self.offset` -/
  | offset
  deriving DecidableEq, Repr

/-- `EdgeOdometry.is_valid(self)` / `EdgeLandmark.is_valid(self)` -/
structure EdgeValidFacts where
  /-- `self._is_valid()` -/
  baseValid : Bool
  /-- `len(self.vertices)` -/
  numVertices : Nat
  /-- `isinstance(<obj>, type(self.vertices[i].pose))` -/
  isInst : ObjRef → Nat → Bool
  /-- `type(self.vertices[i].pose).COMPACT_DIMENSIONALITY` -/
  compactDim : Nat → Nat
  /-- `self.information.shape` -/
  infoShape : List Nat

/-- the `assert` of `Graph._initialize` -/
structure InitFacts where
  /-- `e.is_valid() for e in self._edges`, element by element, after the binding loop -/
  edgesValid : List Bool

end GraphSlam.Model.CmpFacts
