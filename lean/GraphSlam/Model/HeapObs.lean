import GraphSlam.Model.Heap
import GraphSlam.Model.HeapNumOpt
import GraphSlam.Model.Chi2

/-!
# Observation functions for the object (heap) model — what a trace harness can see of `Model.Objects`

`Model/Heap.lean` defines the effect of every call on the world (`exec`).  To run the model next to the real library on the
same history (driver command `heap`, `Driver/Heap.lean`; harness `heap_harness.py`) three more things are needed, all
defined here from the model's own functions (the theorems tying them back to `exec` are in `Props/C15/HeapObs.lean`):

* `execR`         — the call's effect *and the identities of the objects it returns* (`exec` drops the latter);
                    `execR_world : (execR L op w).map (·.1) = exec L op w`;
* intermediate observations — what a spy inside the call sees:
    `optimizeSeen`: the world at the moment of the `i`-th `spsolve` call = `optimizeObj` with `i` updates (the real harness
                    records `id(v.pose)` of every vertex inside its `spsolve` wrapper);
    `numJacStart` / `numJacPrefix`: the set-up of `_calc_jacobian` and the world after its first `n` columns
                    (`numJacPrefix_full`: with `n = dim` this is `numJacobianObj`); `numJacSeen`: the perturbed pose objects
                    the inner `calc_error()` calls saw, read off the trace of worlds;
* the content-level readers of the edge classes as functions of the *view* (`errOfView`, `chi2OfView`, `uerrTyped`, `errF`,
  `chi2F`, `jacF`, `gchi2F`): arguments for `Op.numJacobian` / `Op.query`.  For `EdgeOdometry` / `EdgeLandmark` they are
  `Model.lineariseAt` (the generated `calc_error`, `calc_chi2`, `calc_jacobians`); for the harness's own custom edge
  (`tools/lib/graphgen.py` `DistanceEdge`, the user code of a numerically differentiated edge) `distErrOfView`;
* `storedLib`     — `typedLib` with every result evaluated once (`storedLib_eq : storedLib = typedLib`): vectors are
                    functions, without this a chain of `+=` re-evaluates its whole history at every read.

Mathlib-free, executable, generic in the scalar type.
-/

namespace GraphSlam.Model.Objects
open GraphSlam GraphSlam.Gen GraphSlam.Model

variable {P E : Type}

/-! ## Calls with their results -/

/-- a call from outside: the new world and the identities of the objects handed back to the caller
    (`[]` for calls that return `None` / a non-array) -/
def execR [ScalarF E] (L : PoseLib P E) : Op P E → World P E → Option (World P E × List ObjId)
  | .copy p, w => (poseCopy L w.heap p).map fun r => ({ w with heap := r.1 }, [r.2])
  | .add p q, w => (poseAdd L w.heap p q).map fun r => ({ w with heap := r.1 }, [r.2])
  | .sub p q, w => (poseSub L w.heap p q).map fun r => ({ w with heap := r.1 }, [r.2])
  | .inverse p, w => (poseInverse L w.heap p).map fun r => ({ w with heap := r.1 }, [r.2])
  | .toCompact p, w => (poseToCompact L w.heap p).map fun r => ({ w with heap := r.1 }, [r.2])
  | .normalize p, w => (poseNormalize L w.heap p).map fun h => ({ w with heap := h }, [])
  | .iadd k q, w => (vertexIadd L w k q).map fun w' => (w', [])
  | .calcErrorOdo ei, w => (calcErrorOdo L w ei).map fun r => (r.1, [r.2])
  | .calcErrorLm ei, w => (calcErrorLm L w ei).map fun r => (r.1, [r.2])
  | .query f, w => some (query f w)
  | .numJacobian uerr ei vi dim eps, w => (numJacobianObj L uerr w ei vi dim eps).map fun r => (r.1, [r.2])
  | .optimize solve ffp iters, w => (optimizeObj L solve ffp iters w).map fun w' => (w', [])
  | .scribble p o, w => some ({ w with heap := w.heap.write p o }, [])

/-! ## Caller actions that are not library calls (attribute assignments on a `Vertex`) -/

/-- `g._vertices[k].fixed = b` -/
def World.setFixed (w : World P E) (k : Nat) (b : Bool) : World P E :=
  match w.vertices[k]? with
  | none => w
  | some v => { w with vertices := w.vertices.set k { v with fixed := b } }

/-! ## Inside `optimize`: the world at every `spsolve` call -/

/-- the world when `spsolve` is called for the `i`-th time (`i = 0, 1, …`): `fix_first_pose` done, `i` updates applied -/
def optimizeSeen (L : PoseLib P E) (solve : Nat → GraphView P E → Seg E) (ffp : Bool) (iters : Nat) (w : World P E) :
    List (Option (World P E)) :=
  (List.range iters).map fun i => optimizeObj L solve ffp i w

/-! ## Inside `_calc_jacobian`: set-up, prefixes of the loop, the perturbed objects -/

section numjac
variable [ScalarF E]

/-- the state of `_calc_jacobian` on entry to its loop -/
structure NumJacState (P E : Type) where
  e : EdgeO
  /-- position of the differentiated vertex in the graph's vertex list -/
  k : Nat
  err0 : Seg E
  p0 : ObjId
  J : ObjId
  w : World P E

/-- base_edge.py:176-177 (`jacobian = np.zeros(…)`, `p0 = ….pose.copy()`): `numJacobianObj` up to its loop -/
def numJacStart (L : PoseLib P E) (uerr : EdgeView P E → Seg E) (w : World P E) (ei vi dim : Nat) : Option (NumJacState P E) :=
  match w.edges[ei]? with
  | none => none
  | some e =>
    match e.verts[vi]? with
    | none => none
    | some k =>
      match w.vertices[k]? with
      | none => none
      | some v =>
        let err0 := uerr (w.edgeView e)
        let j := w.heap.alloc (.block ⟨err0.len, dim, fun _ _ => Scalar.ofInt 0⟩)
        match poseCopy L j.1 v.pose with
        | none => none
        | some c => some ⟨e, k, err0, c.2, j.2, { w with heap := c.1 }⟩

/-- the world after the first `n` columns of the loop (the loop still runs with the full `dim`) -/
def numJacPrefix (L : PoseLib P E) (uerr : EdgeView P E → Seg E) (w : World P E) (ei vi dim : Nat) (eps : E) (n : Nat) :
    Option (World P E) :=
  (numJacStart L uerr w ei vi dim).bind fun s => numJacLoopObj L uerr s.e s.k dim eps s.err0 s.p0 s.J n 0 s.w

end numjac

/-- is object `id` a pose instance? -/
def isPoseObj (h : Heap (Obj P E)) (id : ObjId) : Bool :=
  match h.get? id with
  | some (.pose _) => true
  | _ => false

/-- the pose objects created between two worlds of a trace (`w` earlier, `w'` later) that vertex `k` is *not* bound to in
    `w'`.  For two consecutive prefixes of the `_calc_jacobian` loop this is the perturbed pose the inner `calc_error()` of
    that column saw (the other new pose object, the copy of `p0`, is what the vertex is bound to afterwards). -/
def newPosesNotBound (w w' : World P E) (k : Nat) : List ObjId :=
  ((List.range (w'.heap.size - w.heap.size)).map (w.heap.size + ·)).filter fun id =>
    isPoseObj w'.heap id && (match w'.vertices[k]? with | some v => v.pose != id | none => true)

/-- the perturbed pose objects seen by the `dim` inner `calc_error()` calls of `_calc_jacobian`, column by column -/
def numJacSeen [ScalarF E] (L : PoseLib P E) (uerr : EdgeView P E → Seg E) (w : World P E) (ei vi dim : Nat) (eps : E) :
    List ObjId :=
  match numJacStart L uerr w ei vi dim with
  | none => []
  | some s =>
    (List.range dim).flatMap fun d =>
      match numJacPrefix L uerr w ei vi dim eps d, numJacPrefix L uerr w ei vi dim eps (d + 1) with
      | some wd, some wd1 => newPosesNotBound wd wd1 s.k
      | _, _ => []

/-! ## The built-in edge classes as functions of what they read -/

/-- which `calc_error` an edge object runs: the two built-in classes, and the harness's own custom edge
    (`tools/lib/graphgen.py` `DistanceEdge`: numerical Jacobians; `DistanceEdgeAnalytic`: the same error, analytic Jacobians) -/
inductive EKind where
  | odo
  | lm
  | dist
  | dista
  deriving DecidableEq, Repr

section typed
variable [ScalarF E]

/-- evaluate once (`storePose p = p`) -/
def storePose : Pose E → Pose E
  | .r2 p => let a := storeArray p; .r2 (readArray a)
  | .r3 p => let a := storeArray p; .r3 (readArray a)
  | .se2 p => let a := storeArray p; .se2 (readArray a)
  | .se3 p => let a := storeArray p; .se3 (readArray a)

/-- `typedLib`, every resulting pose evaluated once -/
def storedLib : PoseLib (Pose E) E where
  oplus a b := ((typedLib (E := E)).oplus a b).map storePose
  ominus a b := ((typedLib (E := E)).ominus a b).map storePose
  boxplus a δ := storePose ((typedLib (E := E)).boxplus a δ)
  inverse a := storePose ((typedLib (E := E)).inverse a)
  copy a := storePose ((typedLib (E := E)).copy a)
  normalize a := ((typedLib (E := E)).normalize a).map storePose
  to_compact := (typedLib (E := E)).to_compact
  cdim := (typedLib (E := E)).cdim

/-- a 1-D array evaluated once; entries beyond the length read as `0` -/
def storeSeg (s : Seg E) : Seg E :=
  let a : Array E := Array.ofFn (n := s.len) fun i => s.get i.val
  ⟨s.len, fun i => a.getD i (Scalar.ofInt 0)⟩

/-- a 2-D array evaluated once (row-major) -/
def storeBlock (b : Block E) : Block E :=
  let a : Array E := Array.ofFn (n := b.r * b.c) fun i => b.get (i.val / b.c) (i.val % b.c)
  ⟨b.r, b.c, fun i j => if i < b.r ∧ j < b.c then a.getD (i * b.c + j) (Scalar.ofInt 0) else Scalar.ofInt 0⟩

/-- the record `calc_chi2_gradient_hessian` works from (error, χ², Jacobians), from the *contents* an edge reads:
    `Model.lineariseAt` on the edge rebuilt from its view (`none`: classes do not fit, an attribute is not of the expected kind) -/
def edgeLinOfView (kind : EKind) (v : EdgeView (Pose E) E) : Option (EdgeLin E) :=
  match kind, v.poses, v.estimate, v.information, v.offset with
  | .odo, [some p0, some p1], some (.pose z), some (.block b), _ => lineariseAt 0 0 p0 p1 (.odo 0 1 z b.get)
  | .lm, [some p0, some p1], some (.pose z), some (.block b), some (some (.pose o)) => lineariseAt 0 0 p0 p1 (.lm 0 1 z o b.get)
  | _, _, _, _, _ => none

/-- `pose.position` -/
def posOf : Pose E → List E
  | .r2 p => [p 0, p 1]
  | .r3 p => [p 0, p 1, p 2]
  | .se2 p => [p 0, p 1]
  | .se3 p => [p 0, p 1, p 2]

/-- `np.linalg.norm` of a short 1-D array: `sqrt(dot(x, x))` -/
def normL (xs : List E) : E := ScalarF.sqrt (pySumFrom (xs.map fun x => x * x))
where
  /-- left-to-right sum starting from the first term -/
  pySumFrom : List E → E
    | [] => Scalar.ofInt 0
    | x :: rest => rest.foldl (· + ·) x

/-- `DistanceEdge.calc_error` (tools/lib/graphgen.py): distance between the positions of the first two vertices (binary),
    norm of the position (unary), perimeter (more), minus the scalar estimate; positions cut to the common length -/
def distErrOfView (v : EdgeView (Pose E) E) : Option (Seg E) :=
  match allSome v.poses, v.estimate with
  | some ps, some (.seg est) =>
    let qs := ps.map posOf
    let d := (qs.map List.length).foldl min 3
    let qs := qs.map (List.take d)
    let diff (a b : List E) : List E := List.zipWith (· - ·) a b
    let val : Option E :=
      match qs with
      | [] => none
      | [a] => some (normL a)
      | [a, b] => some (normL (diff a b))
      | _ => some (pySum ((List.range qs.length).map fun i =>
          normL (diff (qs.getD i []) (qs.getD ((i + 1) % qs.length) []))))
    val.map fun x => storeSeg ⟨1, fun _ => x - est.get 0⟩
  | _, _ => none

/-- `calc_error()` as a function of the edge's view -/
def errOfView (kind : EKind) (v : EdgeView (Pose E) E) : Option (Seg E) :=
  match kind with
  | .odo | .lm => (edgeLinOfView kind v).map fun l => storeSeg ⟨l.m, l.err⟩
  | .dist | .dista => distErrOfView v

/-- `calc_chi2()` as a function of the edge's view (`np.dot(np.dot(err.T, information), err)`) -/
def chi2OfView (kind : EKind) (v : EdgeView (Pose E) E) : Option E :=
  match kind with
  | .odo | .lm => (edgeLinOfView kind v).map (·.chi2)
  | .dist | .dista =>
    match distErrOfView v, v.information with
    | some e, some (.block b) => some (BaseEdge.calc_chi2 (n := 1) (fun _ => e.get 0) (fun _ _ => b.get 0 0))
    | _, _ => none

/-- `calc_error()` as a function of the edge's view (the `uerr` argument of `Op.numJacobian`);
    the empty array if the view is ill-typed (the Python code raises there: the harness never asks) -/
def uerrTyped (kind : EKind) (v : EdgeView (Pose E) E) : Seg E :=
  match errOfView kind v with
  | some s => s
  | none => ⟨0, fun _ => Scalar.ofInt 0⟩

/-- the view of edge `ei` inside a graph view -/
def GraphView.edgeView (g : GraphView (Pose E) E) (ei : Nat) : Option (EdgeView (Pose E) E) :=
  (g.edges[ei]?).map fun e =>
    ⟨e.1.map fun i => match (g.vertices[i]?).bind (·.2.1) with
        | some (Obj.pose p) => some p
        | _ => none,
     e.2.1, e.2.2.1, e.2.2.2⟩

/-- `edges[ei].calc_chi2()` as a read-only method (`Op.query`): one scalar -/
def chi2F (kinds : List EKind) (ei : Nat) (g : GraphView (Pose E) E) : List (Obj (Pose E) E) :=
  match kinds[ei]?, g.edgeView ei with
  | some k, some v =>
    match chi2OfView k v with
    | some c => [.seg ⟨1, fun _ => c⟩]
    | none => []
  | _, _ => []

/-- `edges[ei].calc_error()` as a read-only method (used for the custom edges; the built-in ones have the literal
    object-level `calcErrorOdo` / `calcErrorLm`) -/
def errF (kinds : List EKind) (ei : Nat) (g : GraphView (Pose E) E) : List (Obj (Pose E) E) :=
  match kinds[ei]?, g.edgeView ei with
  | some k, some v =>
    match errOfView k v with
    | some e => [.seg e]
    | none => []
  | _, _ => []

/-- analytic `edges[ei].calc_jacobians()` as a read-only method: one 2-D array per vertex of the edge -/
def jacF (kinds : List EKind) (ei : Nat) (g : GraphView (Pose E) E) : List (Obj (Pose E) E) :=
  match kinds[ei]?, g.edgeView ei with
  | some k, some v =>
    match edgeLinOfView k v with
    | some l => l.verts.map fun x => .block (storeBlock ⟨l.m, x.2.1, x.2.2⟩)
    | none => []
  | _, _ => []

/-- `Graph.calc_chi2()` as a read-only method: Python `sum` of the edges' χ² (`Model.graphChi2`) -/
def gchi2F (kinds : List EKind) (g : GraphView (Pose E) E) : List (Obj (Pose E) E) :=
  let cs := (List.range g.edges.length).map fun ei =>
    match kinds[ei]?, g.edgeView ei with
    | some k, some v => chi2OfView k v
    | _, _ => none
  match allSome cs with
  | some xs => [.seg ⟨1, fun _ => graphChi2 xs⟩]
  | none => []

end typed

end GraphSlam.Model.Objects
