import GraphSlam.Model.GraphIter
import GraphSlam.Model.NumJac

/-!
# Layer B model: object identities (a heap) — what `optimize` and the queries do to numpy *objects*

The other models (`Model.NumJac`, `Model.Assembly.applyDx`, `Model.GraphIter`, `Model.Run`) have value semantics: a pose
is its entries.  The real code works with numpy objects: a `Vertex` keeps the caller's pose object (vertex.py:47-51), an
edge keeps the caller's `estimate` / `information` / `offset` objects (base_edge.py:46-50, edge_landmark.py:59-62), several
vertices / edges may hold the *same* object, and whether an operation writes into an existing array or allocates a new one
is observable.  This file is a small explicit object model of exactly that, line by line:

* `Heap`      — a growing array of objects; `ObjId` = position; `alloc` appends (every `np.array(...)`, `PoseXX(...)`,
                `np.zeros(...)` in the library creates a new object); `write` is the in-place store;
* `Obj`       — a pose instance (entries: the abstract `P`), a 1-D float array (`Seg`), a 2-D float array (`Block`);
* `World`     — the heap + the vertices `(id, pose : ObjId, fixed, gradient_index)` + the edges (positions of their
                vertices in the vertex list, `estimate` / `information` / `offset : ObjId`).  Nothing forbids two fields
                holding the same `ObjId`;
* `PoseLib`   — the *content-level* pose functions (`⊕`, `⊖`, `⊞`, inverse, copy, normalize, to_compact: for the four
                library classes these are the generated definitions, `typedLib` below);
* the operations at object level.  Every `__add__` / `__sub__` / `inverse` / `copy` of pose/*.py ends in
  `PoseXX([...])` = `np.array([...]).view(cls)`: a NEW object → `poseAdd` / `poseSub` / `poseInverse` / `poseCopy`
  allocate.  `BasePose.__iadd__` is `return self + other` (base_pose.py:155-169): `x.pose += y` evaluates
  `x.pose.__iadd__(y)` — a new object — and RE-BINDS the attribute → `vertexIadd`.

In-place writes in the library (`grep` for `/=`, `+=`, `[...] =` in /repo/graphslam):
  1. `PoseSE3.normalize` (se3.py:49 `self[3:] /= …`)  → `poseNormalize`, the one operation that changes an existing object
     (the library itself calls it only on the estimate it has just constructed in `EdgeOdometry.from_g2o`);
  2. `delta_pose[d] = EPS` (base_edge.py:184) and `jacobian[:, d] = …` (base_edge.py:188): writes into arrays allocated by
     the same call (`np.zeros`) → modelled literally in `numJacLoopObj` (`Heap.write` to the object just allocated);
  3. `_Chi2GradientHessian.update` (`+=` on a dictionary entry that adopted an earlier contribution array),
     `self._gradient[...] += contrib`, `self._hessian[...] = …` (graph.py:274-284, 382-411), `mat[triu0] = arr` (util.py:70):
     writes into arrays created by the same call (`np.dot` results, `np.zeros`, `lil_matrix`) → *not* modelled one by one:
     the assembling is a `query` (a function of what it reads, allocating its results).

`Op` is one call from outside (`scribble` = the caller overwriting an array it holds: the harness's aliasing probe),
`exec` its effect, `run` a history.  `none` = the Python code raised (dangling reference, wrong operand class, empty vertex list): no statement is made about
the state after an exception.  Generic in the scalar type and in the pose content; Mathlib-free and executable.
-/

namespace GraphSlam.Model.Objects
open GraphSlam GraphSlam.Gen GraphSlam.Model

/-! ## The heap -/

/-- object identities are positions in the heap (a notation, so that the type is literally `Nat`) -/
scoped notation "ObjId" => Nat

/-- a growing array of objects; the identity of an object is its position -/
structure Heap (α : Type) where
  objs : Array α

namespace Heap
variable {α : Type}

def empty : Heap α := ⟨#[]⟩
def size (h : Heap α) : Nat := h.objs.size
/-- the content of object `id` (`none`: no such object) -/
def get? (h : Heap α) (id : ObjId) : Option α := h.objs[id]?
/-- a new object: appended, its identity is the old size -/
def alloc (h : Heap α) (a : α) : Heap α × ObjId := (⟨h.objs.push a⟩, h.objs.size)
/-- the in-place store: object `id` gets new content, its identity stays -/
def write (h : Heap α) (id : ObjId) (a : α) : Heap α := ⟨h.objs.setIfInBounds id a⟩

end Heap

/-- what an object holds -/
inductive Obj (P E : Type) where
  /-- an instance of a `BasePose` subclass -/
  | pose (p : P)
  /-- a 1-D `np.ndarray` -/
  | seg (a : Seg E)
  /-- a 2-D `np.ndarray` -/
  | block (b : Block E)

/-- `a[d] = x` -/
def segSetIdx {E : Type} (a : Seg E) (d : Nat) (x : E) : Seg E := ⟨a.len, fun t => if t = d then x else a.get t⟩
/-- `J[:, d] = col` -/
def blockSetCol {E : Type} (b : Block E) (d : Nat) (col : Nat → E) : Block E :=
  ⟨b.r, b.c, fun a j => if j = d then col a else b.get a j⟩

/-! ## The world -/

/-- a `Vertex` object: its attributes (`pose` is a reference) -/
structure VertexO where
  id : Int
  pose : ObjId
  fixed : Bool
  /-- `gradient_index` (set by `Graph._initialize`) -/
  gidx : Nat
  deriving DecidableEq, Repr

/-- an edge object: `vertices` as positions in the graph's vertex list (what `_initialize` resolves the ids to), and
    references to the measurement, information matrix and (landmark edges) offset objects -/
structure EdgeO where
  verts : List Nat
  estimate : ObjId
  information : ObjId
  offset : Option ObjId
  deriving DecidableEq, Repr

structure World (P E : Type) where
  heap : Heap (Obj P E)
  vertices : List VertexO
  edges : List EdgeO

/-- the content-level functions of the pose classes (values in, value out) -/
structure PoseLib (P E : Type) where
  /-- `p + q` for a pose operand (`⊕`, pose-point); `none`: `NotImplementedError` / wrong class -/
  oplus : P → P → Option P
  /-- `p - q` -/
  ominus : P → P → Option P
  /-- `p + a` for an `np.ndarray` operand (`⊞`): reads entries of `a` -/
  boxplus : P → (Nat → E) → P
  inverse : P → P
  copy : P → P
  /-- `normalize()` computes this and stores it in place; `none`: the class has no `normalize` -/
  normalize : P → Option P
  to_compact : P → Seg E
  /-- `COMPACT_DIMENSIONALITY` -/
  cdim : P → Nat

variable {P E : Type}

/-- the pose held by object `id` (`none`: no such object, or not a pose) -/
def poseOf (h : Heap (Obj P E)) (id : ObjId) : Option P :=
  match h.get? id with
  | some (.pose p) => some p
  | _ => none

/-! ## Pose operators on objects: every one allocates its result, none writes (pose/*.py) -/

/-- `p.copy()` — `PoseXX(self[...])`: a new object -/
def poseCopy (L : PoseLib P E) (h : Heap (Obj P E)) (p : ObjId) : Option (Heap (Obj P E) × ObjId) :=
  (poseOf h p).map fun a => h.alloc (.pose (L.copy a))

/-- `p.inverse` -/
def poseInverse (L : PoseLib P E) (h : Heap (Obj P E)) (p : ObjId) : Option (Heap (Obj P E) × ObjId) :=
  (poseOf h p).map fun a => h.alloc (.pose (L.inverse a))

/-- `p + q`: `__add__` dispatches on the class of `q` (a pose: `⊕`; an `ndarray`: `⊞`), reads both, returns a new object -/
def poseAdd (L : PoseLib P E) (h : Heap (Obj P E)) (p q : ObjId) : Option (Heap (Obj P E) × ObjId) :=
  match poseOf h p, h.get? q with
  | some a, some (.pose b) => (L.oplus a b).map fun r => h.alloc (.pose r)
  | some a, some (.seg s) => some (h.alloc (.pose (L.boxplus a s.get)))
  | _, _ => none

/-- `p - q` -/
def poseSub (L : PoseLib P E) (h : Heap (Obj P E)) (p q : ObjId) : Option (Heap (Obj P E) × ObjId) :=
  match poseOf h p, poseOf h q with
  | some a, some b => (L.ominus a b).map fun r => h.alloc (.pose r)
  | _, _ => none

/-- `p.to_compact()` — `np.array(self[...])`: a new 1-D array -/
def poseToCompact (L : PoseLib P E) (h : Heap (Obj P E)) (p : ObjId) : Option (Heap (Obj P E) × ObjId) :=
  (poseOf h p).map fun a => h.alloc (.seg (L.to_compact a))

/-- `p.normalize()` — se3.py:49 `self[3:] /= sgn * norm`: THE in-place operation; the object keeps its identity -/
def poseNormalize (L : PoseLib P E) (h : Heap (Obj P E)) (p : ObjId) : Option (Heap (Obj P E)) :=
  ((poseOf h p).bind L.normalize).map fun r => h.write p (.pose r)

/-! ## Vertices: re-binding -/

/-- `vertices[k].pose = <object id>` on the vertex list (attribute assignment: the other attributes stay) -/
def rebindList (vs : List VertexO) (k : Nat) (id : ObjId) : List VertexO :=
  match vs[k]? with
  | none => vs
  | some v => vs.set k { v with pose := id }

def World.rebind (w : World P E) (k : Nat) (id : ObjId) : World P E := { w with vertices := rebindList w.vertices k id }

/-- `vertices[k].pose += q` — `BasePose.__iadd__` is `return self + other`: the sum is a new object and the attribute is
    re-bound to it; the object the vertex held before is not touched -/
def vertexIadd (L : PoseLib P E) (w : World P E) (k : Nat) (q : ObjId) : Option (World P E) :=
  match w.vertices[k]? with
  | none => none
  | some v => (poseAdd L w.heap v.pose q).map fun r => ({ w with heap := r.1 } : World P E).rebind k r.2

/-! ## What the library can read through the world (`deref`) -/

/-- the pose content of vertex `i` -/
def World.poseOfVertex (w : World P E) (i : Nat) : Option P := (w.vertices[i]?).bind fun v => poseOf w.heap v.pose

/-- the pose contents of all vertices, in graph order -/
def World.poses (w : World P E) : List (Option P) := w.vertices.map fun v => poseOf w.heap v.pose

/-- what the methods of one edge read: the poses of its vertices and the contents of its own arrays -/
structure EdgeView (P E : Type) where
  poses : List (Option P)
  estimate : Option (Obj P E)
  information : Option (Obj P E)
  offset : Option (Option (Obj P E))

def World.edgeView (w : World P E) (e : EdgeO) : EdgeView P E :=
  ⟨e.verts.map w.poseOfVertex, w.heap.get? e.estimate, w.heap.get? e.information, e.offset.map w.heap.get?⟩

/-- everything reachable from the graph, by content (identities forgotten) -/
structure GraphView (P E : Type) where
  vertices : List (Int × Option (Obj P E) × Bool × Nat)
  edges : List (List Nat × Option (Obj P E) × Option (Obj P E) × Option (Option (Obj P E)))

def World.view (w : World P E) : GraphView P E :=
  ⟨w.vertices.map fun v => (v.id, w.heap.get? v.pose, v.fixed, v.gidx),
   w.edges.map fun e => (e.verts, w.heap.get? e.estimate, w.heap.get? e.information, e.offset.map w.heap.get?)⟩

/-- no dangling references (true of every Python state) -/
def World.WF (w : World P E) : Prop :=
  (∀ v ∈ w.vertices, v.pose < w.heap.size) ∧
  (∀ e ∈ w.edges, e.estimate < w.heap.size ∧ e.information < w.heap.size ∧ ∀ o, e.offset = some o → o < w.heap.size)

/-! ## Queries -/

/-- allocate a list of result objects, in order -/
def allocAll (h : Heap (Obj P E)) : List (Obj P E) → Heap (Obj P E) × List ObjId
  | [] => (h, [])
  | o :: os => let r := allocAll (h.alloc o).1 os; (r.1, h.size :: r.2)

/-- a read-only method (`calc_chi2`, analytic `calc_jacobians`, `calc_chi2_gradient_hessian`, `Graph.calc_chi2`,
    `_calc_chi2_gradient_hessian`, `equals`, `to_g2o`, `is_valid`, the pose Jacobians, …): its results are a function of
    what it reads and are new objects -/
def query (f : GraphView P E → List (Obj P E)) (w : World P E) : World P E × List ObjId :=
  let r := allocAll w.heap (f w.view); ({ w with heap := r.1 }, r.2)

/-- `EdgeOdometry.calc_error` (edge_odometry.py:87), object by object:
    `(self.estimate - (self.vertices[1].pose - self.vertices[0].pose)).to_compact()` -/
def calcErrorOdo (L : PoseLib P E) (w : World P E) (ei : Nat) : Option (World P E × ObjId) :=
  match w.edges[ei]? with
  | none => none
  | some e =>
    match (e.verts[0]?).bind (w.vertices[·]?), (e.verts[1]?).bind (w.vertices[·]?) with
    | some v0, some v1 =>
      (poseSub L w.heap v1.pose v0.pose).bind fun t1 =>
      (poseSub L t1.1 e.estimate t1.2).bind fun t2 =>
      (poseToCompact L t2.1 t2.2).map fun t3 => ({ w with heap := t3.1 }, t3.2)
    | _, _ => none

/-- `EdgeLandmark.calc_error` (edge_landmark.py:116):
    `(((self.vertices[0].pose + self.offset).inverse + self.vertices[1].pose) - self.estimate).to_compact()` -/
def calcErrorLm (L : PoseLib P E) (w : World P E) (ei : Nat) : Option (World P E × ObjId) :=
  match w.edges[ei]? with
  | none => none
  | some e =>
    match (e.verts[0]?).bind (w.vertices[·]?), (e.verts[1]?).bind (w.vertices[·]?), e.offset with
    | some v0, some v1, some off =>
      (poseAdd L w.heap v0.pose off).bind fun t1 =>
      (poseInverse L t1.1 t1.2).bind fun t2 =>
      (poseAdd L t2.1 t2.2 v1.pose).bind fun t3 =>
      (poseSub L t3.1 t3.2 e.estimate).bind fun t4 =>
      (poseToCompact L t4.1 t4.2).map fun t5 => ({ w with heap := t5.1 }, t5.2)
    | _, _, _ => none

/-! ## Numerical differentiation (base_edge.py:159-193) — the query that re-binds -/

section numjac
variable [ScalarF E]

/-- the `for d in range(dim)` loop from column `d` on (`n` columns left).  `uerr` is the edge's `calc_error` (arbitrary
    user code of a custom edge, assumed to only read: a function of the edge's view), `k` the position of the vertex,
    `p0` / `J` the objects `p0` and `jacobian`, `err0` the value of the argument `err` -/
def numJacLoopObj (L : PoseLib P E) (uerr : EdgeView P E → Seg E) (e : EdgeO) (k dim : Nat) (eps : E) (err0 : Seg E)
    (p0 J : ObjId) : (n : Nat) → (d : Nat) → World P E → Option (World P E)
  | 0, _, w => some w
  | n + 1, d, w =>
    -- delta_pose = np.zeros(dim)
    let a := w.heap.alloc (.seg ⟨dim, fun _ => Scalar.ofInt 0⟩)
    -- delta_pose[d] = EPS                                   (in place, into the array just allocated)
    let h2 := a.1.write a.2 (.seg (segSetIdx ⟨dim, fun _ => Scalar.ofInt 0⟩ d eps))
    -- self.vertices[vertex_index].pose += delta_pose        (new object, re-bound)
    match vertexIadd L { w with heap := h2 } k a.2 with
    | none => none
    | some w3 =>
      -- jacobian[:, d] = (self.calc_error() - err) / EPS    (in place, into the result array of this call)
      match w3.heap.get? J with
      | some (.block Jb) =>
        let errd := uerr (w3.edgeView e)
        let h4 := w3.heap.write J (.block (blockSetCol Jb d fun r => ScalarF.div (errd.get r - err0.get r) eps))
        -- self.vertices[vertex_index].pose = p0.copy()      (new object, re-bound)
        match poseCopy L h4 p0 with
        | none => none
        | some c => numJacLoopObj L uerr e k dim eps err0 p0 J n (d + 1) (({ w3 with heap := c.1 } : World P E).rebind k c.2)
      | _ => none

/-- `edges[ei]._calc_jacobian(edges[ei].calc_error(), dim, vi)`: the new world and the `jacobian` object -/
def numJacobianObj (L : PoseLib P E) (uerr : EdgeView P E → Seg E) (w : World P E) (ei vi dim : Nat) (eps : E) :
    Option (World P E × ObjId) :=
  match w.edges[ei]? with
  | none => none
  | some e =>
    match e.verts[vi]? with
    | none => none
    | some k =>
      match w.vertices[k]? with
      | none => none
      | some v =>
        -- err = self.calc_error()                              (the caller's argument)
        let err0 := uerr (w.edgeView e)
        -- jacobian = np.zeros(err.shape + (dim,))
        let j := w.heap.alloc (.block ⟨err0.len, dim, fun _ _ => Scalar.ofInt 0⟩)
        -- p0 = self.vertices[vertex_index].pose.copy()
        match poseCopy L j.1 v.pose with
        | none => none
        | some c => (numJacLoopObj L uerr e k dim eps err0 c.2 j.2 dim 0 { w with heap := c.1 }).map fun w' => (w', j.2)

end numjac

/-! ## `Graph.optimize` (graph.py:414-524) -/

/-- `self._vertices[0].fixed = True` (graph.py:438-439; `IndexError` on an empty graph) -/
def fixFirst (ffp : Bool) (w : World P E) : Option (World P E) :=
  if ffp then
    match w.vertices with
    | [] => none
    | v :: vs => some { w with vertices := { v with fixed := true } :: vs }
  else some w

/-- `{v.gradient_index for v in self._vertices if v.fixed}` (graph.py:442) -/
def fixedIdx (w : World P E) : List Nat := (w.vertices.filter (·.fixed)).map (·.gidx)

/-- the update loop (graph.py:495-501) from vertex position `i` on (`n` vertices left); `dx` is the solver's output -/
def updateLoopObj (L : PoseLib P E) (fixed : List Nat) (dx : ObjId) : (n : Nat) → (i : Nat) → World P E → Option (World P E)
  | 0, _, w => some w
  | n + 1, i, w =>
    match w.vertices[i]? with
    | none => some w
    | some v =>
      -- if v.gradient_index in self._fixed_gradient_indices: continue
      if v.gidx ∈ fixed then updateLoopObj L fixed dx n (i + 1) w
      else
        match poseOf w.heap v.pose, w.heap.get? dx with
        | some p, some (.seg s) =>
          -- dx[g : g + c]: a view of the solver's output (an object of its own that is only read)
          let sl := w.heap.alloc (.seg ⟨L.cdim p, fun t => s.get (v.gidx + t)⟩)
          -- v.pose += …                                        (new object, re-bound)
          match vertexIadd L { w with heap := sl.1 } i sl.2 with
          | none => none
          | some w' => updateLoopObj L fixed dx n (i + 1) w'
        | _, _ => none

/-- one iteration applying the increment `dxv`: `dx = spsolve(…)` is a new array; then the update loop -/
def optimizeStepObj (L : PoseLib P E) (fixed : List Nat) (dxv : Seg E) (w : World P E) : Option (World P E) :=
  let a := w.heap.alloc (.seg dxv)
  updateLoopObj L fixed a.2 w.vertices.length 0 { w with heap := a.1 }

/-- `iters` iterations; iteration `i` applies `solve i <what the assembling read>` (any function: the real one is
    `spsolve(H, -b)` of the system assembled from the view) -/
def optimizeItersObj (L : PoseLib P E) (fixed : List Nat) (solve : Nat → GraphView P E → Seg E) :
    (iters : Nat) → (i : Nat) → World P E → Option (World P E)
  | 0, _, w => some w
  | n + 1, i, w => (optimizeStepObj L fixed (solve i w.view) w).bind (optimizeItersObj L fixed solve n (i + 1))

/-- `optimize(fix_first_pose=ffp)` performing `iters` updates -/
def optimizeObj (L : PoseLib P E) (solve : Nat → GraphView P E → Seg E) (ffp : Bool) (iters : Nat) (w : World P E) :
    Option (World P E) :=
  (fixFirst ffp w).bind fun w1 => optimizeItersObj L (fixedIdx w1) solve iters 0 w1

/-! ## Histories -/

/-- one call from outside -/
inductive Op (P E : Type) where
  | copy (p : ObjId)
  | add (p q : ObjId)
  | sub (p q : ObjId)
  | inverse (p : ObjId)
  | toCompact (p : ObjId)
  /-- `p.normalize()` -/
  | normalize (p : ObjId)
  /-- `g._vertices[k].pose += q` -/
  | iadd (k : Nat) (q : ObjId)
  | calcErrorOdo (ei : Nat)
  | calcErrorLm (ei : Nat)
  | query (f : GraphView P E → List (Obj P E))
  | numJacobian (uerr : EdgeView P E → Seg E) (ei vi dim : Nat) (eps : E)
  | optimize (solve : Nat → GraphView P E → Seg E) (ffp : Bool) (iters : Nat)
  /-- NOT a library operation: the caller overwrites, in place, an array it holds a reference to (what the trace
      harness does to every returned array: the aliasing probe) -/
  | scribble (p : ObjId) (o : Obj P E)

/-- the operations that only read and allocate -/
def Op.isQuery : Op P E → Bool
  | .copy _ | .add _ _ | .sub _ _ | .inverse _ | .toCompact _ | .calcErrorOdo _ | .calcErrorLm _ | .query _ => true
  | _ => false

/-- the in-place operations: `normalize()` of the library, and the caller's own writes -/
def Op.isInPlace : Op P E → Bool
  | .normalize _ | .scribble _ _ => true
  | _ => false

/-- the object an in-place operation writes into -/
def Op.writesTo : Op P E → ObjId → Prop
  | .normalize p, id => p = id
  | .scribble p _, id => p = id
  | _, _ => False

def exec [ScalarF E] (L : PoseLib P E) : Op P E → World P E → Option (World P E)
  | .copy p, w => (poseCopy L w.heap p).map fun r => { w with heap := r.1 }
  | .add p q, w => (poseAdd L w.heap p q).map fun r => { w with heap := r.1 }
  | .sub p q, w => (poseSub L w.heap p q).map fun r => { w with heap := r.1 }
  | .inverse p, w => (poseInverse L w.heap p).map fun r => { w with heap := r.1 }
  | .toCompact p, w => (poseToCompact L w.heap p).map fun r => { w with heap := r.1 }
  | .normalize p, w => (poseNormalize L w.heap p).map fun h => { w with heap := h }
  | .iadd k q, w => vertexIadd L w k q
  | .calcErrorOdo ei, w => (calcErrorOdo L w ei).map (·.1)
  | .calcErrorLm ei, w => (calcErrorLm L w ei).map (·.1)
  | .query f, w => some (query f w).1
  | .numJacobian uerr ei vi dim eps, w => (numJacobianObj L uerr w ei vi dim eps).map (·.1)
  | .optimize solve ffp iters, w => optimizeObj L solve ffp iters w
  | .scribble p o, w => some { w with heap := w.heap.write p o }

/-- a history of calls (stops at the first exception) -/
def run [ScalarF E] (L : PoseLib P E) : List (Op P E) → World P E → Option (World P E)
  | [], w => some w
  | op :: ops, w => (exec L op w).bind (run L ops)

/-! ## The library's four pose classes (generated definitions) -/

section typed
variable [ScalarF E]

/-- `PoseLib` of `PoseR2` / `PoseR3` / `PoseSE2` / `PoseSE3` -/
def typedLib : PoseLib (Pose E) E where
  oplus
    | .r2 a, .r2 b => some (.r2 (PoseR2.add a b))
    | .r3 a, .r3 b => some (.r3 (PoseR3.add a b))
    | .se2 a, .se2 b => some (.se2 (PoseSE2.add a b))
    | .se2 a, .r2 b => some (.r2 (PoseSE2.add_point a b))
    | .se3 a, .se3 b => some (.se3 (PoseSE3.add a b))
    | .se3 a, .r3 b => some (.r3 (PoseSE3.add_point a b))
    | _, _ => none
  ominus
    | .r2 a, .r2 b => some (.r2 (PoseR2.sub a b))
    | .r3 a, .r3 b => some (.r3 (PoseR3.sub a b))
    | .se2 a, .se2 b => some (.se2 (PoseSE2.sub a b))
    | .se3 a, .se3 b => some (.se3 (PoseSE3.sub a b))
    | _, _ => none
  boxplus := Pose.boxplus
  inverse
    | .r2 a => .r2 (PoseR2.inverse a)
    | .r3 a => .r3 (PoseR3.inverse a)
    | .se2 a => .se2 (PoseSE2.inverse a)
    | .se3 a => .se3 (PoseSE3.inverse a)
  copy
    | .r2 a => .r2 (PoseR2.copy a)
    | .r3 a => .r3 (PoseR3.copy a)
    | .se2 a => .se2 (PoseSE2.copy a)
    | .se3 a => .se3 (PoseSE3.copy a)
  normalize
    | .se3 a => some (.se3 (PoseSE3.normalize a))
    | _ => none
  to_compact
    | .r2 a => ⟨2, arrV (PoseR2.to_compact a)⟩
    | .r3 a => ⟨3, arrV (PoseR3.to_compact a)⟩
    | .se2 a => ⟨3, arrV (PoseSE2.to_compact a)⟩
    | .se3 a => ⟨6, arrV (PoseSE3.to_compact a)⟩
  cdim := Pose.cdim

end typed

end GraphSlam.Model.Objects
