import GraphSlam.Core.Scalar

/-!
# Layer B model: numerical differentiation of custom edges (base_edge.py:142-193)

```
err = self.calc_error()
jacobian = np.zeros(err.shape + (dim,))
p0 = self.vertices[k].pose.copy()
for d in range(dim):
    delta_pose = np.zeros(dim); delta_pose[d] = EPS
    self.vertices[k].pose += delta_pose            # rebinding: pose = pose ⊞ delta
    jacobian[:, d] = (self.calc_error() - err) / EPS
    self.vertices[k].pose = p0.copy()
```
The store is the list of vertex poses of the edge; `err` is the edge's error as a function of that store (arbitrary user
code: a parameter).  The model returns the Jacobian **and the final store**, so that purity (C15) is a statement, not an
assumption.  Mathlib-free.
-/

namespace GraphSlam.Model

variable {E : Type} [ScalarF E] {P : Type}

/-- `np.zeros(dim)` with `[d] = eps` -/
def unitDelta (d : Nat) (eps : E) : Nat → E := fun t => if t = d then eps else Scalar.ofInt 0

def setAt (ps : List P) (k : Nat) (p : P) : List P := ps.set k p

/-- the `for d in range(dim)` loop from column `d` on (`n` columns left); returns the columns and the store -/
def numJacLoop (err : List P → Nat → E) (boxplus : P → (Nat → E) → P) (copy : P → P) (k : Nat) (eps : E)
    (err0 : Nat → E) (p0 : P) : (n : Nat) → (d : Nat) → List P → List (Nat → E) → List (Nat → E) × List P
  | 0, _, ps, cols => (cols, ps)
  | n + 1, d, ps, cols =>
    match ps[k]? with
    | none => (cols, ps)
    | some cur =>
      let ps1 := setAt ps k (boxplus cur (unitDelta d eps))
      let col : Nat → E := fun a => ScalarF.div (err ps1 a - err0 a) eps
      let ps2 := setAt ps1 k (copy p0)
      numJacLoop err boxplus copy k eps err0 p0 n (d + 1) ps2 (cols ++ [col])

/-- `_calc_jacobian(err, dim, k)`: columns of the Jacobian (column `d` is a function of the row index) and final store -/
def numJacobian (err : List P → Nat → E) (boxplus : P → (Nat → E) → P) (copy : P → P) (k dim : Nat) (eps : E)
    (ps : List P) : List (Nat → E) × List P :=
  match ps[k]? with
  | none => ([], ps)
  | some p => numJacLoop err boxplus copy k eps (err ps) (copy p) dim 0 ps []

/-- the arithmetic of one column given the perturbed error (what the driver executes) -/
def fdColumn (eps : E) (err0 errd : Nat → E) : Nat → E := fun a => ScalarF.div (errd a - err0 a) eps

end GraphSlam.Model
