import GraphSlam.Model.CmpCommon

/-!
# Layer B model: the five `equals` methods (C17)

Mirrors, stage by stage,

* `BasePose.equals`      graphslam/pose/base_pose.py:59-79
* `Vertex.equals`        graphslam/vertex.py:53-71
* `BaseEdge.equals`      graphslam/edge/base_edge.py:257-296
* `EdgeLandmark.equals`  graphslam/edge/edge_landmark.py:224-254
* `Graph.equals`         graphslam/graph.py:703-725

Objects are descriptors (kind/class tags, ids, shapes, flat lists of numbers).  The numeric type is abstract
(`CmpScalar`): the theorems instantiate it at `ℝ`, the driver at `Float`.  Results are `Except PyErr Bool`: the truth
value of what the Python method returns, or the class of the exception it raises.  Mathlib-free.
-/

namespace GraphSlam.Model.Equals
open GraphSlam.Model.Cmp

/-- the arithmetic the comparison code performs -/
class CmpScalar (E : Type) extends Add E, Sub E, Mul E where
  zero : E
  /-- `np.sqrt` -/
  sqrt : E → E
  /-- float `/` (numpy scalars: never raises) -/
  div : E → E → E
  /-- Python `a < b` -/
  lt : E → E → Bool
  /-- Python `a >= b` -/
  ge : E → E → Bool

instance : CmpScalar Float where
  zero := 0.0
  sqrt := Float.sqrt
  div a b := a / b
  lt a b := a < b
  ge a b := a >= b

section
variable {E : Type} [CmpScalar E]

/-- builtin `max(a, b)`: keeps `a` unless `b > a` -/
def pyMax (a b : E) : E := if CmpScalar.lt a b then b else a

/-- `x.dot(x)` of the ravelled array (`np.linalg.norm`, axis=None, ord=None) -/
def sumSq (xs : List E) : E := xs.foldl (fun acc x => acc + x * x) CmpScalar.zero

/-- `np.linalg.norm(x)`: Euclidean norm of a vector, Frobenius norm of a matrix, `|x|` of a scalar -/
def vnorm (xs : List E) : E := CmpScalar.sqrt (sumSq xs)

/-- `a - b` for two arrays of the same shape (flat data) -/
def zipSub (xs ys : List E) : List E := List.zipWith (fun x y => x - y) xs ys

/-- `a - b` for two 1-D arrays whose lengths are not known to agree: numpy broadcasts a length-1 operand and raises
    `ValueError` otherwise -/
def npSub1 (xs ys : List E) : Except PyErr (List E) :=
  if xs.length = ys.length then .ok (zipSub xs ys)
  else match xs, ys with
    | [x], _ => .ok (ys.map fun y => x - y)
    | _, [y] => .ok (xs.map fun x => x - y)
    | _, _ => .error .valueError

/-- `np.linalg.norm(a - b) / max(np.linalg.norm(a), tol)` given `d = a - b` -/
def relDiff (tol : E) (a d : List E) : E := CmpScalar.div (vnorm d) (pyMax (vnorm a) tol)

/-! ## poses -/

/-- a pose object: its class and `to_array()` -/
structure Pose (E : Type) where
  kind : PoseKind
  comps : List E

/-- `BasePose.equals` -/
def poseEquals (tol : E) (a b : Pose E) : Except PyErr Bool :=
  -- if type(self) is not type(other): return False
  if a.kind ≠ b.kind then .ok false
  else
    -- np.linalg.norm(self.to_array() - other.to_array()) / max(np.linalg.norm(self.to_array()), tol) < tol
    match npSub1 a.comps b.comps with
    | .error e => .error e
    | .ok d => .ok (CmpScalar.lt (relDiff tol a.comps d) tol)

/-! ## vertices -/

structure Vertex (E : Type) where
  id : Int
  pose : Pose E

/-- `Vertex.equals`: `self.id == other.id and (type(self.pose) is type(other.pose)) and self.pose.equals(other.pose, tol)` -/
def vertexEquals (tol : E) (v w : Vertex E) : Except PyErr Bool :=
  if v.id ≠ w.id then .ok false
  else if v.pose.kind ≠ w.pose.kind then .ok false
  else poseEquals tol v.pose w.pose

/-! ## edges -/

/-- the `estimate` attribute: a pose, an `ndarray` (shape, ravelled data), a Python/numpy scalar, or `None` -/
inductive Estimate (E : Type) where
  | pose (p : Pose E)
  | array (shape : List Nat) (data : List E)
  | scalar (x : E)
  | none

/-- `np.shape(estimate)` of a non-pose estimate -/
def Estimate.shape : Estimate E → List Nat
  | .array s _ => s
  | _ => []

/-- ravelled numbers of a non-pose estimate; `none` for `None` (arithmetic on it raises `TypeError`) -/
def Estimate.data? : Estimate E → Option (List E)
  | .array _ d => some d
  | .scalar x => some [x]
  | .pose p => some p.comps
  | .none => Option.none

/-- the `offset` attribute of a landmark edge: `None`, a pose, or an object of some other class without `.equals`
    (for instance a plain `ndarray`) -/
inductive Offset (E : Type) where
  | none
  | pose (p : Pose E)
  | other

/-- `type(a) is type(b)` for two offsets -/
def Offset.sameType : Offset E → Offset E → Bool
  | .none, .none => true
  | .pose p, .pose q => decide (p.kind = q.kind)
  | .other, .other => true
  | _, _ => false

structure Edge (E : Type) where
  cls : EdgeClass
  vertexIds : List Int
  /-- `information.shape` -/
  infoShape : List Nat
  /-- `information.ravel()` -/
  info : List E
  estimate : Estimate E
  /-- only landmark edges have the attribute -/
  offset : Offset E
  offsetId : Option Int

/-- `any(v_id1 != v_id2 for v_id1, v_id2 in zip(a, b))` -/
def idsDiffer : List Int → List Int → Bool
  | x :: xs, y :: ys => if x ≠ y then true else idsDiffer xs ys
  | _, _ => false

/-- `(a is None) ^ (b is None) or (a is not None and a != b)` -/
def offsetIdDiffer (a b : Option Int) : Bool :=
  (a.isNone != b.isNone) || (match a with | some x => (match b with | some y => decide (x ≠ y) | Option.none => true) | Option.none => false)

/-- the final, non-pose branch of `BaseEdge.equals` -/
def plainEstimateEquals (tol : E) (ea eb : Estimate E) : Except PyErr Bool :=
  -- np.shape(self.estimate) != np.shape(other.estimate) -> False
  if ea.shape ≠ eb.shape then .ok false
  else
    -- np.linalg.norm(self.estimate - other.estimate) / max(np.linalg.norm(self.estimate), tol) < tol
    match ea.data?, eb.data? with
    | some x, some y => .ok (CmpScalar.lt (relDiff tol x (zipSub x y)) tol)
    | _, _ => .error .typeError

/-- the estimate part of `BaseEdge.equals` (base_edge.py:288-296) -/
def estimateEquals (tol : E) (ea eb : Estimate E) : Except PyErr Bool :=
  match ea, eb with
  -- if isinstance(self.estimate, BasePose): return isinstance(other.estimate, BasePose) and self.estimate.equals(...)
  | .pose p, .pose q => poseEquals tol p q
  | .pose _, _ => .ok false
  -- if isinstance(other.estimate, BasePose) or np.shape(...) != np.shape(...): return False
  | _, .pose _ => .ok false
  | ea, eb => plainEstimateEquals tol ea eb

/-- `BaseEdge.equals` -/
def baseEdgeEquals (tol : E) (a b : Edge E) : Except PyErr Bool :=
  -- if not type(self) is type(other): return False
  if a.cls ≠ b.cls then .ok false
  -- if len(self.vertex_ids) != len(other.vertex_ids): return False
  else if a.vertexIds.length ≠ b.vertexIds.length then .ok false
  -- if any(v_id1 != v_id2 ...): return False
  else if idsDiffer a.vertexIds b.vertexIds then .ok false
  -- if self.information.shape != other.information.shape or norm(...)/max(...) >= tol: return False
  else if decide (a.infoShape ≠ b.infoShape) || CmpScalar.ge (relDiff tol a.info (zipSub a.info b.info)) tol then .ok false
  else estimateEquals tol a.estimate b.estimate

/-- `EdgeLandmark.equals` -/
def landmarkEdgeEquals (tol : E) (a b : Edge E) : Except PyErr Bool :=
  -- if not type(self) is type(other): return False
  if a.cls ≠ b.cls then .ok false
  -- if not type(self.offset) is type(other.offset): return False
  else if !(a.offset.sameType b.offset) then .ok false
  else
    -- if not self.offset.equals(other.offset, tol): return False      (None / ndarray have no `.equals`)
    match a.offset, b.offset with
    | .pose p, .pose q =>
      match poseEquals tol p q with
      | .error e => .error e
      | .ok false => .ok false
      | .ok true =>
        -- offset_id: one None and the other not, or both set and different -> False
        if offsetIdDiffer a.offsetId b.offsetId then .ok false
        -- return BaseEdge.equals(self, other, tol)
        else baseEdgeEquals tol a b
    | _, _ => .error .attributeError

/-- method resolution of `e1.equals(e2, tol)`: `EdgeLandmark` overrides, every other class inherits `BaseEdge.equals` -/
def edgeEquals (tol : E) (a b : Edge E) : Except PyErr Bool :=
  match a.cls with
  | .landmark => landmarkEdgeEquals tol a b
  | _ => baseEdgeEquals tol a b

/-! ## graphs -/

/-- `all(f(x, y) for x, y in zip(xs, ys))`: stops at the first falsy value, propagates the first exception reached -/
def allZip {α : Type} (f : α → α → Except PyErr Bool) : List α → List α → Except PyErr Bool
  | x :: xs, y :: ys =>
    match f x y with
    | .error e => .error e
    | .ok false => .ok false
    | .ok true => allZip f xs ys
  | _, _ => .ok true

structure Graph (E : Type) where
  edges : List (Edge E)
  vertices : List (Vertex E)

/-- `Graph.equals` -/
def graphEquals (tol : E) (g h : Graph E) : Except PyErr Bool :=
  -- if len(self._edges) != len(other._edges) or len(self._vertices) != len(other._vertices): return False
  if g.edges.length ≠ h.edges.length ∨ g.vertices.length ≠ h.vertices.length then .ok false
  else
    -- all(e1.equals(e2, tol) ...) and all(v1.equals(v2, tol) ...)
    match allZip (edgeEquals tol) g.edges h.edges with
    | .error e => .error e
    | .ok false => .ok false
    | .ok true => allZip (vertexEquals tol) g.vertices h.vertices

/-! ## well-formedness (decidable; what `C17.total` assumes) -/

/-- the pose's array has the length its class constructs -/
def Pose.WF (p : Pose E) : Bool := p.comps.length == p.kind.dim

def Vertex.WF (v : Vertex E) : Bool := v.pose.WF

/-- the estimate is a well-formed pose, an array or a scalar (the documented types; not `None`) -/
def Estimate.WF : Estimate E → Bool
  | .pose p => p.WF
  | .array _ _ => true
  | .scalar _ => true
  | .none => false

/-- a landmark edge carries a well-formed pose as offset (`None` is the constructor's placeholder, not a comparable
    object); the estimate is well-formed -/
def Edge.WF (e : Edge E) : Bool :=
  e.estimate.WF &&
  (match e.cls with
   | .landmark => (match e.offset with | .pose p => p.WF | _ => false)
   | _ => true)

def Graph.WF (g : Graph E) : Bool := g.edges.all Edge.WF && g.vertices.all Vertex.WF

end

end GraphSlam.Model.Equals
