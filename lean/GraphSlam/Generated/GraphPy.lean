import GraphSlam.Core.Scalar

/-! GENERATED: graph.py snippets could NOT be located in the current source:
graphslam/graph.py:417: optimize writes `max_update`, which the model does not account for -/
