/-!
# Descriptors of the `.g2o` reader / writer statements (vocabulary of `Generated/G2OPy.lean`)

`tools/translate/py2lean_g2o.py` locates the `to_g2o` / `from_g2o` methods in the current Python source and describes
every statement it finds there with the data types below: which attribute goes to which `{}` of which format string,
which token positions are converted by `int()` / `float()`, which slices of `arr` are handed to which pose constructor,
whether `normalize()` is called, which slice feeds `upper_triangular_matrix_to_full_matrix`, and so on.  The types carry
no semantics of their own; `GraphSlam/Props/Tie/G2OInterp.lean` gives them the semantics of the Python statements they
stand for, and `GraphSlam/Props/Tie/G2OPy.lean` proves that the hand-written model (`Model/G2O/*.lean`) coincides with
that interpretation of the regenerated data.  No imports, Mathlib-free.
-/

namespace GraphSlam.G2OSpec

/-- the four pose classes named in `isinstance` tests and constructor calls -/
inductive Cls
  | PoseR2 | PoseR3 | PoseSE2 | PoseSE3
  deriving DecidableEq, Repr, Inhabited

/-! ### writers -/

/-- an argument of `"...".format(...)` in `Vertex.to_g2o` -/
inductive VField
  /-- `self.id` -/
  | id
  /-- `self.pose[k]` -/
  | pose (k : Nat)
  deriving DecidableEq, Repr

/-- an argument of `"...".format(...)` in `G2OParameter*.to_g2o` -/
inductive PField
  /-- `self.key[1]` -/
  | keyId
  /-- `self.value[k]` -/
  | value (k : Nat)
  deriving DecidableEq, Repr

/-- an argument of `"...".format(...)` in `EdgeOdometry.to_g2o` / `EdgeLandmark.to_g2o` -/
inductive EField
  /-- `self.vertex_ids[k]` -/
  | vertexId (k : Nat)
  /-- `self.offset_id` -/
  | offsetId
  /-- `self.estimate[k]` -/
  | estimate (k : Nat)
  deriving DecidableEq, Repr

/-- one `if isinstance(self.pose, cls): return fmt.format(*args)` of `Vertex.to_g2o` -/
structure VertexWriter where
  cls : Cls
  fmt : String
  args : List VField
  deriving DecidableEq, Repr

/-- `return fmt.format(*args)` of a parameter class -/
structure ParamWriter where
  fmt : String
  args : List PField
  deriving DecidableEq, Repr

/-- one branch of an edge's `to_g2o`:
`if isinstance(self.vertices[i].pose, C) and ...: [if not np.array_equal(self.offset, PoseSE2.identity()): raise NotImplementedError]
 return fmt.format(*args) + sep.join([str(x) for x in self.information[np.triu_indices(triuN, triuK)]]) + tail` -/
structure EdgeWriter where
  /-- the `isinstance(self.vertices[i].pose, C)` conjuncts, in source order -/
  guard : List (Nat × Cls)
  /-- the branch starts with `if not np.array_equal(self.offset, PoseSE2.identity()): raise NotImplementedError` -/
  identityOffsetOnly : Bool
  fmt : String
  args : List EField
  triuN : Nat
  triuK : Int
  sep : String
  tail : String
  deriving DecidableEq, Repr

/-! ### readers -/

/-- an argument of a pose constructor call: an expression over the float array `arr` -/
inductive Arg
  /-- `arr` -/
  | whole
  /-- `arr[lo:hi]` (`arr[:hi]` has `lo = 0`, `arr[lo:]` has `hi = none`) -/
  | slice (lo : Nat) (hi : Option Nat)
  /-- `arr[i]` -/
  | index (i : Nat)
  /-- `[arr[i0], arr[i1], ...]` -/
  | list (is : List Nat)
  deriving DecidableEq, Repr

/-- one entry of the array literal in a pose class's `__new__` -/
inductive CtorEntry
  /-- `<parameter a>[i]` -/
  | item (a : Nat) (i : Nat)
  /-- `neg_pi_to_pi(<parameter a>)` -/
  | wrapped (a : Nat)
  deriving DecidableEq, Repr

/-- `__new__` of a pose class -/
inductive PoseCtor
  /-- `np.asarray(<parameter a>, dtype=np.float64).view(cls)` -/
  | asarray (a : Nat)
  /-- `np.array([e0, e1, ...], dtype=np.float64).view(cls)` -/
  | entries (es : List CtorEntry)
  deriving DecidableEq, Repr

/-- the effects of a `from_g2o` branch after `numbers = line[len(TAG + " "):].split()`, in evaluation order -/
inductive RStmt
  /-- `arr = np.array([float(number) for number in numbers[frm:]], dtype=np.float64)` (or the plain list) -/
  | floats (frm : Nat)
  /-- `vertex_ids = [int(numbers[p]) for p in ps]` written out -/
  | vertexIds (ps : List Nat)
  /-- `int(numbers[p])` as the id of the vertex / of the parameter key -/
  | id (p : Nat)
  /-- `offset_id = int(numbers[p])` -/
  | offsetId (p : Nat)
  /-- `offset = g2o_params_or_none[(tag, offset_id)].value` -/
  | offsetFromParams (tag : String)
  /-- `offset=C.identity(), offset_id=z` in the constructor call -/
  | offsetIdentity (cls : Cls) (z : Int)
  /-- `p = C(args...)` / `estimate = C(args...)` -/
  | pose (cls : Cls) (args : List Arg)
  /-- `estimate.normalize()` -/
  | normalize
  /-- `information = upper_triangular_matrix_to_full_matrix(arr[frm:], n)` -/
  | information (frm : Nat) (n : Nat)
  deriving DecidableEq, Repr

/-- what the branch returns -/
inductive Ctor
  /-- `cls(<id>, <pose>)` in `Vertex.from_g2o` -/
  | vertex
  /-- `EdgeOdometry(vertex_ids, information, estimate)` -/
  | edgeOdometry
  /-- `EdgeLandmark(vertex_ids, information, estimate, offset=..., offset_id=...)` -/
  | edgeLandmark
  /-- `cls((tag, <id>), <pose>)` in a parameter class -/
  | param (tag : String)
  deriving DecidableEq, Repr

/-- one `if line.startswith(pfx): numbers = line[len(skip):].split(); ...; return ...` -/
structure Reader where
  /-- the literal of `line.startswith(...)` -/
  pfx : String
  /-- the literal inside `line[len(...):]` -/
  skip : String
  steps : List RStmt
  ctor : Ctor
  deriving DecidableEq, Repr

/-! ### `Graph.to_g2o` / `Graph.from_g2o` -/

/-- the three write loops of `Graph.to_g2o` -/
inductive Section
  /-- `for g2o_param in self._g2o_params.values(): f.write(g2o_param.to_g2o())` -/
  | params
  /-- `for v in self._vertices: f.write(v.to_g2o())` -/
  | vertices
  /-- `for e in self._edges: s = e.to_g2o(); if s: f.write(s)` -/
  | edges
  deriving DecidableEq, Repr

/-- the attempts of the loop body of `Graph.from_g2o`, each `x = <attempt>; if x: <store>; continue` -/
inductive Attempt
  /-- `Vertex.from_g2o(line)` → `vertices.append` -/
  | vertex
  /-- `custom_edge_from_g2o(line, custom_edge_types, g2o_params)` → `edges.append` -/
  | customEdges
  /-- `EdgeOdometry.from_g2o(line, g2o_params)` → `edges.append` -/
  | edgeOdometry
  /-- `EdgeLandmark.from_g2o(line, g2o_params)` → `edges.append` -/
  | edgeLandmark
  /-- `param_from_g2o(line, param_types)` → `g2o_params[p.key] = p` -/
  | params
  deriving DecidableEq, Repr

/-- the members of `param_types` -/
inductive ParamType
  | G2OParameterSE2Offset | G2OParameterSE3Offset
  deriving DecidableEq, Repr

end GraphSlam.G2OSpec
