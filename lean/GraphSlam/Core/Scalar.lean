/-!
# Scalar interface (final-tagless) for the generated expression layer

Every definition that `tools/translate/py2lean.py` emits from `/repo/graphslam/pose/*.py`,
`edge/*.py` and `util.py` is generic over a type `E` carrying this interface.  The same
definition is then instantiated at

* `ℝ`      (`GraphSlam/Real/Instance.lean`)  – what the theorems are about,
* `Float`  (below)                            – executed by the driver to validate the translator,
* `Expr`   (`GraphSlam/Real/Expr.lean`)       – a deep embedding used as a proof device
                                                (verified symbolic differentiation).

`ScalarT` (adds `atan2`) is instantiated at `Float` (below) and at `ℝ` (`GraphSlam/Real/Atan2.lean`) only.

This file imports nothing (no Mathlib).
-/

namespace GraphSlam

/-- Ring-like operations plus the transcendental primitives the pose code uses. -/
class Scalar (E : Type) extends Add E, Sub E, Mul E, Neg E where
  /-- integral float literals `0.`, `1.`, `2.`, `4.`, … -/
  ofInt : Int → E
  cos : E → E
  sin : E → E
  /-- `np.pi` -/
  pi : E
  /-- Python float `a % b` (sign of the result follows `b`) -/
  pymod : E → E → E

/-- Operations that only `normalize` and the SE(3) box-plus need. -/
class ScalarF (E : Type) extends Scalar E where
  sqrt : E → E
  div : E → E → E
  /-- Python `a > b` on floats, as a Boolean -/
  gt : E → E → Bool
  /-- Python `a >= b` on floats, as a Boolean -/
  ge : E → E → Bool

/-- `Float` instance used by the driver.  `pymod` follows CPython's `float_rem`
    (`fmod` then sign fix-up); Lean has no `fmod`, so it is computed as
    `a - b*floor(a/b)`, which can differ from CPython's result in the last bits
    (the harness compares angles modulo `2π` with an absolute tolerance). -/
instance : ScalarF Float where
  ofInt z := Float.ofInt z
  cos := Float.cos
  sin := Float.sin
  pi := 3.141592653589793
  pymod a b := a - b * Float.floor (a / b)
  sqrt := Float.sqrt
  div a b := a / b
  gt a b := a > b
  ge a b := a >= b

/-- The two-argument arctangent, needed only by `PoseSE2.from_matrix` (matrix → pose).  A separate class on top of
    `ScalarF`, so that instances which have no use for it (`Expr`, the rounding instance `Fl rnd`, …) are untouched. -/
class ScalarT (E : Type) extends ScalarF E where
  /-- `math.atan2(y, x)` / `np.arctan2(y, x)`: ordinate first, abscissa second -/
  atan2 : E → E → E

/-- `Float` instance of the extended interface: the `ScalarF Float` instance above plus the C library's `atan2`
    (the function CPython's `math.atan2` calls). -/
instance : ScalarT Float where
  toScalarF := inferInstance
  atan2 y x := Float.atan2 y x

section Linear
variable {E : Type} [Scalar E]

/-- `Σ_{i<n} f i`, left-to-right, starting from the first term (no leading zero). -/
def finSum : (n : Nat) → (Fin n → E) → E
  | 0, _ => Scalar.ofInt 0
  | 1, f => f 0
  | n + 2, f => finSum (n + 1) (fun i => f i.castSucc) + f (Fin.last (n + 1))

/-- `np.dot(A, B)` for two 2-D arrays. -/
def dotMM {m n k : Nat} (A : Fin m → Fin n → E) (B : Fin n → Fin k → E) : Fin m → Fin k → E :=
  fun i j => finSum n (fun l => A i l * B l j)

/-- `np.dot(A, v)` for a 2-D and a 1-D array. -/
def dotMV {m n : Nat} (A : Fin m → Fin n → E) (v : Fin n → E) : Fin m → E :=
  fun i => finSum n (fun l => A i l * v l)

/-- `np.dot(v, A)` for a 1-D and a 2-D array. -/
def dotVM {m n : Nat} (v : Fin m → E) (A : Fin m → Fin n → E) : Fin n → E :=
  fun j => finSum m (fun l => v l * A l j)

/-- `np.dot(u, v)` for two 1-D arrays. -/
def dotVV {n : Nat} (u v : Fin n → E) : E :=
  finSum n (fun l => u l * v l)

/-- `np.transpose(A)` for a 2-D array. -/
def transposeM {m n : Nat} (A : Fin m → Fin n → E) : Fin n → Fin m → E := fun i j => A j i

/-- `np.transpose(v)` for a 1-D array is the identity. -/
def transposeV {n : Nat} (v : Fin n → E) : Fin n → E := v

/-- `np.eye(n)` -/
def eye (n : Nat) : Fin n → Fin n → E := fun i j => if i = j then Scalar.ofInt 1 else Scalar.ofInt 0

/-- unary minus on a 2-D array -/
def negM {m n : Nat} (A : Fin m → Fin n → E) : Fin m → Fin n → E := fun i j => -(A i j)

end Linear

end GraphSlam
