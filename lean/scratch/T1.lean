import GraphSlam.Real.Reflect
import GraphSlam.Generated.PoseSE3
open GraphSlam GraphSlam.Gen GraphSlam.Expr
set_option linter.unusedSimpArgs false

set_option maxHeartbeats 2000000 in
theorem t_sub_wrt_other (p q : Fin 7 → ℝ) :
    HasFDerivAt (fun o => PoseSE3.sub p o) (toCLM (PoseSE3.jacobian_self_ominus_other_wrt_other p q)) q := by
  refine hasFDerivAt_of_reflect p q _ (PoseSE3.sub (E := Expr 7 7) (pars 7 7) (vars 7 7)) _ ?_ ?_ ?_
  · reflect_rfl
  · intro i; fin_cases i <;> simp [PoseSE3.sub, Smooth, vars, pars]
  · jac_entries [PoseSE3.sub, PoseSE3.jacobian_self_ominus_other_wrt_other]
#print axioms t_sub_wrt_other
