import GraphSlam.Real.Reflect
import GraphSlam.Real.Wrap
import GraphSlam.Generated.PoseSE2
open GraphSlam GraphSlam.Gen GraphSlam.Expr
set_option linter.unusedSimpArgs false

theorem t_add_wrt_self (p q : Fin 3 → ℝ) (h : OffWrap (p 2 + q 2)) :
    HasFDerivAt (fun s => PoseSE2.add s q) (toCLM (PoseSE2.jacobian_self_oplus_other_wrt_self p q)) p := by
  refine hasFDerivAt_of_reflect q p _ (PoseSE2.add (E := Expr 3 3) (vars 3 3) (pars 3 3)) _ ?_ ?_ ?_
  · reflect_rfl
  · intro i; fin_cases i <;> simp [PoseSE2.add, Util.neg_pi_to_pi, Smooth, closed, eval, vars, pars]
    trace_state; sorry
  · jac_entries [PoseSE2.add, PoseSE2.jacobian_self_oplus_other_wrt_self, Util.neg_pi_to_pi]
