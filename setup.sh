#!/bin/sh
# Offline build of the whole framework from files on disk: regenerate the expression layer from /repo, build every
# registered property module and the model drivers (so that the first ./check of each property is a no-op build).
set -e
HERE="$(cd "$(dirname "$0")" && pwd)"
cd "$HERE"
/venv/bin/python tools/translate/py2lean.py --repo "${VERIF_REPO:-/repo}" --out lean
MODS=$(/venv/bin/python - <<'PY'
import sys
sys.path.insert(0, "tools")
import props
mods, drv = [], []
for c in props.PROPS.values():
    for m in c["modules"]:
        if m not in mods:
            mods.append(m)
    for d in c.get("drivers", ("gsdriver",)):
        if d not in drv:
            drv.append(d)
print(" ".join(mods + drv))
PY
)
cd lean
lake build $MODS
