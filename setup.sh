#!/bin/sh
# Offline build of the whole framework from files on disk: regenerate the expression layer from /repo, build every
# property module and the model driver.
set -e
HERE="$(cd "$(dirname "$0")" && pwd)"
cd "$HERE"
/venv/bin/python tools/translate/py2lean.py --repo "${VERIF_REPO:-/repo}" --out lean
cd lean
lake build GraphSlam gsdriver
