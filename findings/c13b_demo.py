import sys; sys.path.insert(0, sys.argv[1] if len(sys.argv)>1 else '/repo')
import numpy as np, tempfile, os
from graphslam.graph import Graph
from graphslam.vertex import Vertex
from graphslam.pose.se2 import PoseSE2
from graphslam.edge.edge_landmark import EdgeLandmark
vs=[Vertex(0,PoseSE2([0,0],.3)),Vertex(1,PoseSE2([2,1],.1))]
e=EdgeLandmark([0,1],np.eye(3),PoseSE2([1.5,.2],.3),offset=PoseSE2.identity(),offset_id=0)
g=Graph([e],vs); f=tempfile.mktemp(suffix='.g2o')
try:
    g.to_g2o(f); print(open(f).read()); Graph.from_g2o(f)
except Exception as ex: print('RAISES', type(ex).__name__, ex)
finally:
    if os.path.exists(f): os.remove(f)
