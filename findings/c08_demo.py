"""Known finding (C08 / C13): the rotational part of an SE(3) odometry error is the vector part of the error
quaternion with no sign canonicalisation, so negating the measurement's (or a vertex's) unit quaternion negates it;
chi^2 then changes whenever the information matrix has translation-rotation cross terms."""
import sys; sys.path.insert(0, sys.argv[1] if len(sys.argv)>1 else '/repo')
import numpy as np
from graphslam.vertex import Vertex
from graphslam.pose.se3 import PoseSE3
from graphslam.edge.edge_odometry import EdgeOdometry
rs=np.random.RandomState(1)
def q(): v=rs.randn(4); return v/np.linalg.norm(v)
p0=PoseSE3(rs.randn(3),q()); p1=PoseSE3(rs.randn(3),q()); z=PoseSE3(rs.randn(3),q())
A=rs.randn(6,6); info=A@A.T+np.eye(6)          # SPD with translation-rotation cross terms
zneg=PoseSE3(z[:3],-z[3:])
e1=EdgeOdometry([0,1],info,z,[Vertex(0,p0),Vertex(1,p1)]); e2=EdgeOdometry([0,1],info,zneg,[Vertex(0,p0),Vertex(1,p1)])
print('chi2(z) =',e1.calc_chi2(),' chi2(-z) =',e2.calc_chi2())
bd=info.copy(); bd[:3,3:]=0; bd[3:,:3]=0
e1.information=bd; e2.information=bd
print('block-diagonal information: chi2(z) =',e1.calc_chi2(),' chi2(-z) =',e2.calc_chi2())
