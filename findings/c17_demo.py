import sys; sys.path.insert(0, sys.argv[1] if len(sys.argv)>1 else '/repo')
import numpy as np
from graphslam.pose.r2 import PoseR2
from graphslam.pose.r3 import PoseR3
from graphslam.pose.se2 import PoseSE2
from graphslam.vertex import Vertex
from graphslam.edge.edge_odometry import EdgeOdometry
from graphslam.edge.edge_landmark import EdgeLandmark
def t(name, f):
    try: print(name, '->', f())
    except Exception as e: print(name, '-> RAISES', type(e).__name__, e)
eo = EdgeOdometry([1,2], np.eye(3), PoseSE2([1,2],.5))
el = EdgeLandmark([1,2], np.eye(2), PoseR2([1,2]), offset=PoseSE2.identity(), offset_id=0)
t('EdgeLandmark.equals(EdgeOdometry)', lambda: el.equals(eo))
t('EdgeOdometry.equals(EdgeLandmark)', lambda: eo.equals(el))
t('PoseR2.equals(PoseSE2)', lambda: PoseR2([1,2]).equals(PoseSE2([1,2],.5)))
t('PoseR3([1,2,.5]).equals(PoseSE2([1,2],.5))', lambda: PoseR3([1,2,.5]).equals(PoseSE2([1,2],.5)))
e1 = EdgeOdometry([1,2], np.eye(3), PoseR3([1,2,.5])); e2 = EdgeOdometry([1,2], np.eye(3), PoseSE2([1,2],.5))
t('odometry R3-estimate equals SE2-estimate (same numbers)', lambda: e1.equals(e2))
from graphslam.edge.base_edge import BaseEdge
class C(BaseEdge):
    def is_valid(self): return True
    def calc_error(self): return np.zeros(1)
t('custom edges, ndarray estimates of different length', lambda: C([1],np.eye(1),np.ones(2)).equals(C([1],np.eye(1),np.ones(3))))
