import sys; sys.path.insert(0, sys.argv[1] if len(sys.argv)>1 else '/repo')
import numpy as np, tempfile, os
from graphslam.graph import Graph
from graphslam.vertex import Vertex
from graphslam.pose.r2 import PoseR2
from graphslam.pose.r3 import PoseR3
from graphslam.pose.se2 import PoseSE2
from graphslam.pose.se3 import PoseSE3
from graphslam.edge.edge_landmark import EdgeLandmark
def rt(g):
    f=tempfile.mktemp(suffix='.g2o')
    try:
        g.to_g2o(f); print(open(f).read().strip().replace('\n',' | ')[:300]); g2=Graph.from_g2o(f); return g2
    finally:
        if os.path.exists(f): os.remove(f)
def t(name,f):
    try: print(name,'->',f())
    except Exception as e: print(name,'-> RAISES',type(e).__name__,e)
vs=[Vertex(0,PoseSE2([0,0],0.3)),Vertex(1,PoseR2([2,1]))]
e=EdgeLandmark([0,1],np.eye(2),PoseR2([1.5,0.2]),offset=PoseSE2([0.5,-0.2],0.7),offset_id=0)
g=Graph([e],vs)
t('SE2 landmark edge with non-identity offset: chi2 before / after round trip', lambda: (g.calc_chi2(), rt(g).calc_chi2()))
vs=[Vertex(0,PoseSE3([0,0,0],[0,0,0,1])),Vertex(1,PoseR3([2,1,0]))]
e=EdgeLandmark([0,1],np.eye(3),PoseR3([1.5,0.2,0]),offset=PoseSE3([0.5,-0.2,0],[0,0,0,1]),offset_id=3)
g=Graph([e],vs)
t('SE3 landmark edge whose offset is not a registered parameter', lambda: rt(g).calc_chi2())
