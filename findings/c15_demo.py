"""Known finding (C15): an SE(2) pose whose stored angle is exactly +pi changes bitwise under a pure query.

Python's float `%` can round up to its divisor, so `util.neg_pi_to_pi` maps an angle one ulp below -pi to +pi (the closed end
of the documented range [-pi, pi]), and it is not idempotent there: wrapping +pi gives -pi.  `PoseSE2.copy()` goes through the
wrapping constructor, and the numerical differentiator (`BaseEdge._calc_jacobian`) saves / restores the estimate with `copy()`:
a numerical-Jacobian (or gradient/Hessian) query on an edge whose vertex is stored as +pi leaves that vertex stored as -pi - the
same physical pose, but not "never changes any pose"."""
import sys; sys.path.insert(0, sys.argv[1] if len(sys.argv) > 1 else '/repo')
import math
import numpy as np
from graphslam.pose.se2 import PoseSE2
from graphslam.vertex import Vertex
from graphslam.edge.base_edge import BaseEdge
from graphslam.edge.edge_odometry import EdgeOdometry

p = PoseSE2([0.0, 0.0], np.nextafter(-np.pi, -np.inf))
print('stored angle:', repr(float(p[2])), '(== +pi:', float(p[2]) == math.pi, ')   copy():', repr(float(p.copy()[2])))
v0, v1 = Vertex(0, PoseSE2([0.0, 0.0], 0.1)), Vertex(1, p)
e = EdgeOdometry([0, 1], np.eye(3), PoseSE2([1.0, 0.0], 0.2), [v0, v1])
before = np.array(v1.pose).tobytes()
BaseEdge.calc_jacobians(e)  # a query
after = np.array(v1.pose).tobytes()
print('numerical-Jacobian query changed the vertex pose bitwise:', before != after, '->', np.array(v1.pose).tolist())
sys.exit(1 if before != after else 0)
