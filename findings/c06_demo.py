import sys; sys.path.insert(0, sys.argv[1] if len(sys.argv)>1 else '/repo')
import numpy as np, warnings
warnings.simplefilter("ignore")
from graphslam.graph import Graph
from graphslam.vertex import Vertex
from graphslam.pose.r2 import PoseR2
from graphslam.edge.edge_odometry import EdgeOdometry
def show(title, g):
    before=[np.array(v.pose) for v in g._vertices]
    r=g.optimize(verbose=False, fix_first_pose=False, max_iter=3)
    print(title)
    for v,b in zip(g._vertices,before): print('   id',v.id,'fixed' if v.fixed else 'free ', b, '->', np.array(v.pose))
# (1) a fixed vertex with no incident edge
vs=[Vertex(0,PoseR2([0,0]),fixed=True), Vertex(1,PoseR2([1,0.2])), Vertex(2,PoseR2([2.1,0])), Vertex(3,PoseR2([5,5]),fixed=True)]
es=[EdgeOdometry([0,1],np.eye(2),PoseR2([1,0])), EdgeOdometry([1,2],np.eye(2),PoseR2([1,0]))]
show('isolated fixed vertex 3:', Graph(es,vs))
# (2) a free component without anchor (singular H)
vs=[Vertex(0,PoseR2([0,0]),fixed=True), Vertex(1,PoseR2([1,0.2])), Vertex(2,PoseR2([2.1,0])), Vertex(3,PoseR2([5,5]))]
es=[EdgeOdometry([0,1],np.eye(2),PoseR2([1,0])), EdgeOdometry([2,3],np.eye(2),PoseR2([1,0]))]
show('unanchored component {2,3}:', Graph(es,vs))
